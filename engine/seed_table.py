#!/usr/bin/env python3
"""Prints the seeded-change table of DESIGN.md §8 from seeded/*/meta.json (written by engine/seedrun.py)."""
import glob, json, os
rows = []
for f in sorted(glob.glob(os.path.join(os.path.dirname(__file__), "..", "seeded", "C*-m*", "meta.json"))):
    m = json.load(open(f))
    rows.append(m)
det = [m for m in rows if m.get("detected")]
mis = [m for m in rows if not m.get("detected")]
print("%d changes for %d properties; %d detected by the quick checks, %d missed.\n" % (
    len(rows), len({m["property"] for m in rows}), len(det), len(mis)))
print("| seed | change (short) | detected by |")
print("|---|---|---|")
for m in rows:
    units = sorted({u.split(".h2")[0].split(".init_w")[0] for u in m.get("violating_units", [])})
    d = ", ".join(units) if m.get("detected") else "**missed** - " + (m.get("note") or "").replace("MISSED: ", "")
    ch = m["change"]
    print("| %s | %s | %s |" % (m["id"], ch if len(ch) < 150 else ch[:147] + "...", d))

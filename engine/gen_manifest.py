#!/usr/bin/env python3
"""Writes MANIFEST.json from the unit registry + the per-property texts in manifest_src.py."""
import json, os, sys
sys.path.insert(0, os.path.dirname(os.path.dirname(os.path.abspath(__file__))))
from engine.check import all_units
import manifest_src as ms

us, metas = all_units()
claimed = sorted({u.prop for u in us})
checks = []
for p in claimed:
    c = ms.CHECKS[p]
    checks.append({
        "property_id": p,
        "quick_cmd": "./check %s --tier quick" % p,
        "thorough_cmd": "./check %s --tier thorough" % p,
        "evidence_file": "/verif/evidence/%s.json" % p,
        "replay_cmd_template": "cat {path}",
        "engine": "cbmc-contracts",
        "level_claimed": {"category": c["category"], "text": c["text"], "design_ref": c["design_ref"]},
        "level_note": c["note"],
        "technique": c["technique"],
    })
na = [{"property_id": p, "reason": r} for p, r in sorted(ms.NOT_APPLICABLE.items()) if p not in claimed]
allp = [json.loads(l)["id"] for l in open(os.path.join(os.path.dirname(__file__), "..", "properties.jsonl"))]
missing = [p for p in allp if p not in claimed and p not in ms.NOT_APPLICABLE]
assert not missing, "properties neither claimed nor not_applicable: %s" % missing
m = {
    "version": 1,
    "setup_cmd": "./setup.sh",
    "hooks": ms.HOOKS,
    "engines": [{"name": "cbmc-contracts", "path": "/verif/engine/core.py", "serves_properties": claimed,
                 "kind_free_text": "contract-based deductive verification: CBMC 6.11 code contracts "
                                   "(requires/ensures/assigns/loop invariants) enforced per function with "
                                   "goto-instrument --dfcc or an assume/assert harness on the real translation "
                                   "units of /repo; callees by contract; native twin replays counterexamples"}],
    "checks": checks,
    "notes": ms.NOTES,
    "not_applicable": na,
}
json.dump(m, open(os.path.join(os.path.dirname(__file__), "..", "MANIFEST.json"), "w"), indent=1)
print("MANIFEST.json: %d checks, %d not applicable" % (len(checks), len(na)))

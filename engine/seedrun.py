#!/usr/bin/env python3
"""Run the quick check of a seeded change's property against a scratch worktree with the change applied.
usage: seedrun.py <seed-dir-name>... | all      (uses /tmp/mut as scratch worktree of /repo HEAD; never touches /repo)
Records in seeded/<name>/meta.json: detected (exit 1 + VIOLATION), failing units/obligations."""
import json, os, re, subprocess, sys
V = os.path.dirname(os.path.dirname(os.path.abspath(__file__)))
WT = os.environ.get("SEED_WT", "/tmp/mut")


def sh(c, **k):
    return subprocess.run(c, shell=True, text=True, capture_output=True, **k)


def main():
    names = sys.argv[1:]
    if names == ["all"]:
        names = sorted(d for d in os.listdir(os.path.join(V, "seeded")) if os.path.isdir(os.path.join(V, "seeded", d)))
    if not os.path.isdir(WT):
        sh("git -C /repo worktree add -f %s HEAD -q" % WT)
    for n in names:
        d = os.path.join(V, "seeded", n)
        prop = n.split("-")[0]
        sh("git -C %s reset -q --hard" % WT)
        sh("git -C %s checkout -q --detach main" % WT)   # current /repo HEAD (includes the fix: commits)
        r = sh("git -C %s apply %s/patch.diff" % (WT, d))
        if r.returncode:
            r = sh("git -C %s apply --3way %s/patch.diff" % (WT, d))
        if r.returncode:
            print(n, "PATCH DOES NOT APPLY", r.stderr)
            continue
        env = dict(os.environ, VERIF_REPO=WT, VERIF_SCRATCH="/tmp/mut_build")
        r = subprocess.run([os.path.join(V, "check"), prop], text=True, capture_output=True, env=env, cwd=V)
        sh("git -C %s reset -q --hard" % WT)
        viol = [l for l in r.stdout.split("\n") if l.startswith("VIOLATION")]
        failed = [l.strip() for l in r.stdout.split("\n") if l.strip().startswith("failed obligation")]
        units = re.findall(r"\[%s\] (\S+)\s+violation" % prop, r.stdout)
        mp = os.path.join(d, "meta.json")
        meta = json.load(open(mp)) if os.path.exists(mp) else {}
        meta.update({"property": prop, "check_exit": r.returncode, "detected": r.returncode == 1 and bool(viol),
                     "violating_units": units, "failed_obligations": failed[:6], "violation_lines": viol})
        json.dump(meta, open(mp, "w"), indent=1)
        print(n, "DETECTED" if meta["detected"] else "MISSED (exit %d)" % r.returncode, units)


main()

#!/usr/bin/env python3
import argparse, importlib, os, pkgutil, sys
sys.path.insert(0, os.path.dirname(os.path.dirname(os.path.abspath(__file__))))
from engine import core


def all_units():
    import units
    us, metas = [], {}
    for m in sorted(pkgutil.iter_modules(units.__path__), key=lambda m: m.name):
        mod = importlib.import_module("units." + m.name)
        us += getattr(mod, "UNITS", [])
        metas.update(getattr(mod, "META", {}))
    ids = [u.uid for u in us]
    assert len(ids) == len(set(ids)), "duplicate unit ids"
    return us, metas


def main():
    ap = argparse.ArgumentParser()
    ap.add_argument("prop")
    ap.add_argument("--tier", default=os.environ.get("VERIF_TIER", "quick"))
    ap.add_argument("--unit", action="append")
    ap.add_argument("--list", action="store_true")
    a = ap.parse_args()
    us, metas = all_units()
    if a.list:
        for u in us:
            if a.prop in ("all", u.prop):
                print(u.prop, u.uid, u.kind, u.tier, u.mode, ",".join(u.functions))
        return 0
    seed = int(os.environ.get("VERIF_SEED", "0") or 0)
    tier = a.tier if a.tier in ("quick", "thorough") else "quick"
    return core.run_property(a.prop, us, tier, seed, metas.get(a.prop, {}), only=a.unit)


if __name__ == "__main__":
    sys.exit(main())

#!/usr/bin/env python3
import json, glob, sys
import jsonschema
jsonschema.validate(json.load(open('/verif/MANIFEST.json')), json.load(open('/root/.vp/MANIFEST.schema.json')))
s = json.load(open('/root/.vp/EVIDENCE.schema.json'))
for f in sorted(glob.glob('/verif/evidence/*.json')):
    jsonschema.validate(json.load(open(f)), s)
    d = json.load(open(f))
    if d['level'] == 'proof':
        assert d['coverage']['obligations'] == d['coverage']['discharged'] or d.get('violations'), f
print('manifest + %d evidence files valid' % len(glob.glob('/verif/evidence/*.json')))

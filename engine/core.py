#!/usr/bin/env python3
"""Proof-unit engine: compile the real /repo files with goto-cc, enforce contracts
(goto-instrument --dfcc or plain assume/assert harness), run CBMC under limits, parse
every obligation, apply vacuity/drift guards, replay counterexamples natively, write evidence.

Exit codes of a check: 0 = every obligation of every unit discharged (known findings are printed),
1 = at least one obligation that is not a listed known finding failed (VIOLATION line printed),
2 = undecided (timeout / out of memory / tool crash / contract no longer attaches); never both.
"""
import concurrent.futures as cf
import hashlib
import json
import os
import random
import re
import resource
import shutil
import subprocess
import sys
import time

VERIF = os.path.dirname(os.path.dirname(os.path.abspath(__file__)))
REPO = os.environ.get("VERIF_REPO", "/repo")
SCRATCH = os.environ.get("VERIF_SCRATCH", os.path.join(VERIF, ".build"))
GUARD = "SVT_AV1_VERIF"
# runs against a scratch copy of the repository (mutation experiments) never touch the committed evidence
OUT_DIR = VERIF if os.path.realpath(REPO) == "/repo" else SCRATCH

INC_DIRS = [
    ".", "Source/API", "Source/Lib/Common/Codec", "Source/Lib/Common/C_DEFAULT",
    "Source/Lib/Common/ASM_SSE2", "Source/Lib/Common/ASM_SSSE3", "Source/Lib/Common/ASM_SSE4_1",
    "Source/Lib/Common/ASM_AVX2", "Source/Lib/Common/ASM_AVX512", "Source/Lib/Encoder/Codec",
    "Source/Lib/Encoder/Globals", "Source/Lib/Encoder/C_DEFAULT", "Source/Lib/Encoder/ASM_SSE2",
    "Source/Lib/Encoder/ASM_SSSE3", "Source/Lib/Encoder/ASM_SSE4_1", "Source/Lib/Encoder/ASM_AVX2",
    "Source/Lib/Encoder/ASM_AVX512", "Source/Lib/Decoder/Codec", "third_party/fastfeat",
    "third_party/cpuinfo/include",
]
# the library's own definitions (Source/Lib/*/CMakeLists.txt) + our guard
DEFS = ["-DARCH_X86_64=1", "-DEN_AVX512_SUPPORT=0", "-DSAFECLIB_STR_NULL_SLACK=1", "-DNDEBUG",
        "-std=gnu99", "-D" + GUARD + "=1"]

DEFAULT_CHECKS = ["--bounds-check", "--pointer-check", "--div-by-zero-check",
                  "--signed-overflow-check", "--undefined-shift-check", "--pointer-overflow-check"]
# --conversion-check is NOT a default: narrowing integer conversions are implementation-defined (GCC: modular),
# not undefined, and the library uses them deliberately ((uint8_t)c, (int16_t)(rng << d)); units that care about
# a value-preserving conversion say so in their contract.


class Unit:
    """One function (or one lemma over several functions) of /repo under contract."""

    def __init__(self, uid, prop, harness, entry, functions, mode="dfcc", enforce=None,
                 replace=(), loop_contracts=0, replace_calls=None, remove_bodies=(), extra_src=(),
                 defines=(), cbmc_flags=(), checks=None, unwind=None, unwindset=(), kind="proved",
                 bound="", min_obligations=1, canaries=1, timeout=600, mem_gb=10, tier="quick",
                 malloc_may_fail=False, assumptions=(), trusted=(), native=False, native_src=(),
                 what="", backend=None, object_bits=12, keep_bodies=None, covers=0,
                 restrict_fp=None, nondet_static=False, drop_checks=(), slice_spec=None,
                 thorough_defines=None, thorough_unwind=None, quick_bound="", thorough_bound="",
                 cover_functions=None, cover_allow=(), cover=True, pre_cmds=()):
        self.uid = uid
        self.prop = prop
        self.harness = harness          # path relative to /verif
        self.entry = entry              # harness function
        self.functions = list(functions)  # real functions under contract in this unit
        self.mode = mode                # 'dfcc' | 'plain'
        self.enforce = enforce          # dfcc: function whose contract is enforced
        self.replace = list(replace)    # dfcc: callees replaced by their contracts
        self.loop_contracts = loop_contracts  # number of loops expected to carry an in-place contract
        self.replace_calls = dict(replace_calls or {})
        self.remove_bodies = list(remove_bodies)
        self.extra_src = list(extra_src)
        self.defines = list(defines)
        self.cbmc_flags = list(cbmc_flags)
        self.checks = list(DEFAULT_CHECKS if checks is None else checks)
        self.drop_checks = list(drop_checks)
        self.unwind = unwind
        self.unwindset = list(unwindset)
        self.kind = kind                # 'proved' | 'bounded'
        self.bound = bound
        self.min_obligations = min_obligations
        self.canaries = canaries        # number of CANARY assertions that must FAIL
        self.timeout = timeout
        self.mem_gb = mem_gb
        self.tier = tier                # 'quick' => runs in both tiers; 'thorough' => thorough only
        self.malloc_may_fail = malloc_may_fail
        self.assumptions = list(assumptions)
        self.trusted = list(trusted)
        self.native = native
        self.native_src = list(native_src)
        self.what = what
        self.backend = backend          # None (minisat) | 'cvc5' | 'z3' | 'kissat' | 'cadical'
        self.object_bits = object_bits
        self.keep_bodies = keep_bodies  # if set: remove every other body from these TUs
        self.covers = covers
        self.restrict_fp = restrict_fp
        self.nondet_static = nondet_static
        self.slice_spec = slice_spec    # block slice: dict(file, func, first, last, name, params, ret)
        self.thorough_defines = thorough_defines
        self.thorough_unwind = thorough_unwind
        self.quick_bound = quick_bound
        self.thorough_bound = thorough_bound
        # reachability guard: every basic block of these real functions must be reachable under the contract
        self.cover = cover
        self.cover_functions = cover_functions  # default: the enforced function / none for lemma harnesses
        self.cover_allow = list(cover_allow)    # regexes on the source text of a block that may be unreachable
        self.pre_cmds = list(pre_cmds)          # generators run before compilation ({udir}, {repo}, {verif})


class Undecided(Exception):
    pass


def sh(cmd, timeout=None, mem_gb=None, cwd=None, env=None):
    def lim():
        if mem_gb:
            b = int(mem_gb * (1 << 30))
            resource.setrlimit(resource.RLIMIT_AS, (b, b))
        os.setsid()
    t0 = time.time()
    p = subprocess.Popen(cmd, stdout=subprocess.PIPE, stderr=subprocess.PIPE, cwd=cwd, env=env,
                         preexec_fn=lim, text=True, errors="replace")
    try:
        out, err = p.communicate(timeout=timeout)
        to = False
    except subprocess.TimeoutExpired:
        try:
            os.killpg(p.pid, 9)
        except ProcessLookupError:
            pass
        out, err = p.communicate()
        to = True
    return p.returncode, out, err, time.time() - t0, to


def repo_flags():
    fl = list(DEFS)
    for d in INC_DIRS:
        fl.append("-I" + os.path.join(REPO, d))
    fl.append("-I" + os.path.join(SCRATCH, "gen"))
    fl.append("-I" + VERIF)
    fl.append("-I" + os.path.join(VERIF, "contracts"))
    fl.append("-I" + os.path.join(VERIF, "stubs"))
    fl.append("-I" + os.path.join(VERIF, "harness"))
    return fl


def prepare_scratch():
    os.makedirs(os.path.join(SCRATCH, "gen"), exist_ok=True)
    # EbVersion.h is produced by CMake from EbVersion.h.in; generate it the same way
    src = os.path.join(REPO, "Source/Lib/Common/Codec/EbVersion.h.in")
    txt = open(src).read().replace("@PACKAGE_VERSION_STRING@", "v0.8.6-verif")
    p = os.path.join(SCRATCH, "gen", "EbVersion.h")
    if not os.path.exists(p) or open(p).read() != txt:
        open(p, "w").write(txt)


# ---------------------------------------------------------------- scratch copies: block slices, loop annotations
def _find_function(src_lines, func_re, fname):
    fpat = re.compile(func_re)
    starts = [i for i, l in enumerate(src_lines) if fpat.search(l)]
    if len(starts) != 1:
        raise Undecided("annotation/slice no longer attaches: function anchor %r matched %d times in %s"
                        % (func_re, len(starts), fname))
    fs = starts[0]
    fe = next((i for i in range(fs + 1, len(src_lines)) if src_lines[i].startswith("}")), None)
    if fe is None:
        raise Undecided("end of function %r not found in %s" % (func_re, fname))
    return fs, fe


def make_slice(u, udir):
    """Mechanical per-run transformations of a scratch copy of a /repo file (DESIGN §3.4, §4):
      kind 'annot': insert loop-contract clauses (text owned by /verif) between a loop header and its body;
                    the loop header line is located by its exact text inside the named function and must fire
                    exactly once.  Removing the inserted text gives back the original file byte for byte
                    (checked), so the verified text is the repository's code plus annotations.
      kind 'slice': copy the statement range [first,last] of a kernel into a new function appended to the copy
                    (what is dropped: everything of the kernel outside the range).
    An anchor that does not fire is Undecided ('no longer attaches'), never a violation."""
    sp = u.slice_spec
    specs = sp if isinstance(sp, list) else [sp]
    files = {}
    for s in specs:
        key = s["file"]
        if key not in files:
            orig = open(os.path.join(REPO, key)).read().split("\n")
            files[key] = {"orig": orig, "inserts": [], "append": []}
        f = files[key]
        src_lines = f["orig"]
        fs, fe = _find_function(src_lines, s["func_re"], key)

        def find(anchor, lo, hi):
            return [i for i in range(lo, hi) if src_lines[i].strip() == anchor.strip()]
        if s.get("kind", "slice") == "annot":
            hits = find(s["loop"], fs, fe)
            occ = s.get("occurrence")
            if occ is not None and len(hits) > occ:
                hits = [hits[occ]]
            if len(hits) != 1:
                raise Undecided("loop annotation %s no longer attaches: header %r matched %d times in %s"
                                % (s["name"], s["loop"], len(hits), s["func_re"]))
            ln = src_lines[hits[0]]
            if s.get("do_while"):
                # contract of a do-while goes after its `while (cond)`: the line is `} while (...);`
                if not ln.rstrip().endswith(";"):
                    raise Undecided("loop annotation %s: do-while tail does not end with ';'" % s["name"])
                pos = len(ln.rstrip()) - 1
            else:
                if not ln.rstrip().endswith("{"):
                    raise Undecided("loop annotation %s: loop header line does not end with '{'" % s["name"])
                pos = len(ln.rstrip()) - 1
            f["inserts"].append((hits[0], pos, "\n" + s["text"].strip("\n") + "\n"))
            continue
        a = find(s["first"], fs, fe)
        occ = s.get("first_occurrence")
        if occ is not None and len(a) > occ:
            a = [a[occ]]
        if len(a) != 1:
            raise Undecided("slice no longer attaches: first anchor %r matched %d times in %s"
                            % (s["first"], len(a), s["func_re"]))
        b = find(s["last"], a[0], fe)
        if b:
            b = [b[s.get("last_occurrence", 0)]] if len(b) > s.get("last_occurrence", 0) else []
        if len(b) != 1:
            raise Undecided("slice no longer attaches: last anchor %r not found after the first" % (s["last"],))
        body = src_lines[a[0]:b[0] + 1]
        txt = "\n".join(s.get("prologue", []) + body + s.get("epilogue", []))
        stripped = re.sub(r'"(\\.|[^"\\])*"', '""', re.sub(r"//.*", "", txt))
        if stripped.count("{") != stripped.count("}"):
            raise Undecided("slice %s: range is not brace balanced" % s["name"])
        for forbidden in ("return", "goto", "break", "continue"):
            if forbidden in s.get("allow", ()):
                continue
            if re.search(r"\b" + forbidden + r"\b", stripped):
                raise Undecided("slice %s: range contains '%s'" % (s["name"], forbidden))
        fn = ["", "/* ---- mechanical block slice of %s lines %d-%d of %s ---- */"
              % (s["func_re"], a[0] + 1, b[0] + 1, key),
              "%s %s(%s) {" % (s.get("ret", "void"), s["name"], s["params"])]
        fn += s.get("prologue", [])
        fn += body
        fn += s.get("epilogue", [])
        fn += ["}"]
        f["append"] += fn
        s["_range"] = (a[0] + 1, b[0] + 1)
    res = {}
    for key, f in files.items():
        lines = list(f["orig"])
        for (li, pos, text) in sorted(f["inserts"], reverse=True):
            lines[li] = lines[li][:pos] + text + lines[li][pos:]
        # check: removing the inserted text restores the original
        chk = "\n".join(lines)
        for (li, pos, text) in f["inserts"]:
            if chk.count(text) != 1:
                raise Undecided("annotation text not unique in scratch copy of %s" % key)
            chk = chk.replace(text, "")
        if chk != "\n".join(f["orig"]):
            raise Undecided("scratch copy of %s differs from the original by more than the annotations" % key)
        lines += f["append"]
        op = os.path.join(udir, "scratch_" + os.path.basename(key))
        open(op, "w").write("\n".join(lines))
        res[key] = op
    return res


# ---------------------------------------------------------------- compile / instrument / solve
def list_functions_with_body(gb):
    rc, out, err, _, _ = sh(["goto-instrument", "--list-goto-functions", "--json-ui", gb], timeout=300)
    # cheaper: --show-goto-functions is huge; use --list-goto-functions text
    names = set()
    try:
        d = json.loads(out)
        for e in d:
            if isinstance(e, dict) and "functions" in e:
                for f in e["functions"]:
                    if f.get("isBodyAvailable") and not f.get("isInternal"):
                        names.add(f["name"])
    except Exception:
        pass
    return names


def call_graph(gb):
    rc, out, err, _, _ = sh(["goto-instrument", "--call-graph", gb], timeout=300)
    g = {}
    for l in out.split("\n"):
        m = re.match(r"^(\S+) -> (\S+)$", l.strip())
        if m:
            g.setdefault(m.group(1), set()).add(m.group(2))
    return g


def build_unit(u, tier, extra_defines=(), tag=""):
    udir = os.path.join(SCRATCH, u.prop, u.uid.replace("/", "_") + tag)
    shutil.rmtree(udir, ignore_errors=True)
    os.makedirs(udir)
    defines = list(u.defines) + list(extra_defines)
    if tier == "thorough" and u.thorough_defines is not None:
        defines = list(u.thorough_defines) + list(extra_defines)
    dflags = ["-D" + d for d in defines] + ["-DVERIF_CBMC=1", "-DVERIF_TIER_%s=1" % tier.upper()]
    if u.slice_spec:
        sl = make_slice(u, udir)
        for k, p in sl.items():
            macro = "SCRATCH_" + re.sub(r"\W", "_", os.path.basename(k))
            dflags.append('-D%s="%s"' % (macro, p))
    for pc in u.pre_cmds:
        c = pc.format(udir=udir, repo=REPO, verif=VERIF)
        rc, out, err, t, to = sh(["sh", "-c", c], timeout=300)
        if rc != 0:
            raise Undecided("generator failed (%s): %s" % (u.uid, (err or out)[-800:]))
    dflags.append("-I" + udir)
    harness = os.path.join(VERIF, u.harness)
    # 1. syntax pre-check with gcc (goto-cc accepts some signature mismatches silently)
    gb0 = os.path.join(udir, "u0.gb")
    srcs = [harness] + [os.path.join(REPO, s[6:]) if s.startswith("@repo/") else (os.path.join(VERIF, s) if not s.startswith("/") else s) for s in u.extra_src]
    cmd = ["goto-cc"] + repo_flags() + dflags + ["--function", u.entry] + srcs + ["-o", gb0]
    rc, out, err, t, to = sh(cmd, timeout=600, mem_gb=16)
    log = [" ".join(cmd), out, err]
    if rc != 0 or to:
        raise Undecided("contract no longer attaches / harness does not compile (%s): %s"
                        % (u.uid, (err or out)[-1500:]))
    if re.search(r"conflicting|incompatible", err):
        # goto-cc prints type conflicts as warnings
        bad = [l for l in err.split("\n") if re.search(r"conflicting|incompatible", l)]
        raise Undecided("signature drift (%s): %s" % (u.uid, "; ".join(bad)[:800]))
    cur = gb0
    step = 0

    def gi(args):
        nonlocal cur, step
        step += 1
        nxt = os.path.join(udir, "u%d.gb" % step)
        c = ["goto-instrument"] + args + [cur, nxt]
        rc, out, err, t, to = sh(c, timeout=900, mem_gb=24)
        log.extend([" ".join(c), out[-4000:], err[-4000:]])
        if rc != 0 or to:
            raise Undecided("goto-instrument failed (%s): %s" % (u.uid, (err or out)[-1500:]))
        cur = nxt
        return out + err
    # first: --replace-calls removes function pointers itself, after which the call-site labels are gone
    if u.restrict_fp:
        a = []
        for k, v in u.restrict_fp.items():
            a += ["--restrict-function-pointer", "%s/%s" % (k, ",".join(v))]
        gi(a)
    if u.replace_calls:
        a = []
        for k, v in u.replace_calls.items():
            a += ["--replace-calls", "%s:%s" % (k, v)]
        gi(a)
    rm = list(u.remove_bodies)
    if u.keep_bodies is not None:
        have = list_functions_with_body(cur)
        keep = set(u.keep_bodies) | {u.entry}
        # keep everything reachable by direct calls from the kept set
        g = call_graph(cur)
        work = list(keep)
        while work:
            f = work.pop()
            for c in g.get(f, ()):
                if c not in keep:
                    keep.add(c)
                    work.append(c)
        rm += [f for f in have if f not in keep and not f.startswith("__CPROVER")]
    if rm:
        a = []
        for f in sorted(set(rm)):
            a += ["--remove-function-body", f]
        # chunks to keep command lines short
        for i in range(0, len(a), 400):
            gi(a[i:i + 400])
    if u.nondet_static:
        gi(["--nondet-static"])
    text = ""
    if u.mode == "dfcc":
        a = ["--dfcc", u.entry]
        if u.enforce:
            a += ["--enforce-contract", u.enforce]
        for r in u.replace:
            a += ["--replace-call-with-contract", r]
        if u.loop_contracts:
            a += ["--apply-loop-contracts"]
        text = gi(a)
    elif u.loop_contracts:
        text = gi(["--apply-loop-contracts"])
    return udir, cur, log, text


def run_cbmc(u, gb, udir, tier, extra=(), trace_prop=None):
    checks = [c for c in u.checks if c not in u.drop_checks]
    cmd = ["cbmc", gb, "--json-ui"] + checks + list(u.cbmc_flags) + list(extra)
    if not u.malloc_may_fail:
        cmd.append("--no-malloc-may-fail")
    else:
        cmd += ["--malloc-may-fail", "--malloc-fail-null"]
    unwind = u.unwind
    if tier == "thorough" and u.thorough_unwind is not None:
        unwind = u.thorough_unwind
    if unwind is not None:
        cmd += ["--unwind", str(unwind), "--unwinding-assertions"]
    for us in u.unwindset:
        cmd += ["--unwindset", us]
    if u.unwindset and unwind is None:
        cmd += ["--unwinding-assertions"]
    if u.object_bits:
        cmd += ["--object-bits", str(u.object_bits)]
    be = u.backend
    if be == "cvc5":
        cmd.append("--cvc5")
    elif be == "z3":
        cmd.append("--z3")
    elif be == "cadical":
        cmd += ["--sat-solver", "cadical"]
    elif be == "kissat":
        cmd += ["--external-sat-solver", "kissat"]
    if trace_prop:
        cmd += ["--trace", "--property", trace_prop]
    rc, out, err, t, to = sh(cmd, timeout=u.timeout, mem_gb=u.mem_gb)
    open(os.path.join(udir, "cbmc%s.json" % ("_trace" if trace_prop else "")), "w").write(out)
    open(os.path.join(udir, "cbmc%s.err" % ("_trace" if trace_prop else "")), "w").write(err)
    if to:
        raise Undecided("solver timeout after %ds (%s)" % (u.timeout, u.uid))
    try:
        d = json.loads(out)
    except Exception:
        raise Undecided("no parsable verifier output, rc=%s (%s): %s"
                        % (rc, u.uid, (err or out)[-600:]))
    results, msgs, status = [], [], None
    for e in d:
        if not isinstance(e, dict):
            continue
        if "result" in e:
            results = e["result"]
        elif "messageText" in e:
            msgs.append((e.get("messageType", ""), e["messageText"]))
        elif "cProverStatus" in e:
            status = e["cProverStatus"]
    if status is None:
        txt = " | ".join(m[1] for m in msgs[-4:])
        if "memory" in (err + txt).lower() or "bad_alloc" in (err + txt):
            raise Undecided("solver out of memory (%s, limit %s GB)" % (u.uid, u.mem_gb))
        raise Undecided("verifier ended without a verdict rc=%s (%s): %s" % (rc, u.uid, txt[-600:] or err[-600:]))
    return results, msgs, status, t, " ".join(cmd)


def run_cover(u, gb, udir, tier):
    """Vacuity guard: cbmc --cover location; every basic block of the real function(s) under contract must be
    reachable (a loop step that dies on a contradictory assumption proves its invariant vacuously)."""
    funcs = u.cover_functions
    if funcs is None:
        funcs = [u.enforce] if u.enforce else []
    if not funcs or not u.cover:
        return None
    cmd = ["cbmc", gb, "--json-ui", "--cover", "location"] + list(u.cbmc_flags)
    cmd += ["--no-malloc-may-fail"] if not u.malloc_may_fail else ["--malloc-may-fail", "--malloc-fail-null"]
    unwind = u.unwind if not (tier == "thorough" and u.thorough_unwind is not None) else u.thorough_unwind
    if unwind is not None:
        cmd += ["--unwind", str(unwind)]
    for us in u.unwindset:
        cmd += ["--unwindset", us]
    if u.object_bits:
        cmd += ["--object-bits", str(u.object_bits)]
    rc, out, err, t, to = sh(cmd, timeout=u.timeout, mem_gb=u.mem_gb)
    if to:
        raise Undecided("reachability (cover) run timed out (%s)" % u.uid)
    try:
        d = json.loads(out)
    except Exception:
        raise Undecided("reachability (cover) run gave no parsable output (%s)" % u.uid)
    goals = None
    for e in d:
        if isinstance(e, dict) and "goals" in e:
            goals = e["goals"]
    if goals is None:
        raise Undecided("reachability (cover) run ended without goals (%s)" % u.uid)
    srccache = {}
    total, dead = 0, []
    # blocks of the real body: goal ids `<f>_wrapped_for_contract_checking.coverage.N` (dfcc) or `<f>.coverage.N`
    prefixes = tuple([f + "_wrapped_for_contract_checking.coverage." for f in funcs] +
                     ([f + ".coverage." for f in funcs] if u.mode != "dfcc" or not u.enforce else
                      [f + ".coverage." for f in funcs if f != u.enforce]))
    special = re.compile(r"^\s*(while|for|do)\b|^\s*\}\s*while\b|VERIF_LOOP_|^\s*[{}]*\s*$|^\s*//")
    for g in goals:
        if not g.get("goal", "").startswith(prefixes):
            continue
        lines = []
        for fn, m in g.get("basicBlockLines", {}).items():
            if fn.startswith(VERIF) and SCRATCH not in fn:
                continue  # contract clause evaluation, not real code
            for _, rng in m.items():
                for part in rng.split(","):
                    if "-" in part:
                        a, b = part.split("-")
                        lines += [(fn, i) for i in range(int(a), int(b) + 1)]
                    elif part.strip().isdigit():
                        lines.append((fn, int(part)))
        txt = []
        for fn, ln in lines:
            if fn not in srccache:
                try:
                    srccache[fn] = open(fn if os.path.isabs(fn) else os.path.join(VERIF, fn)).read().split("\n")
                except OSError:
                    srccache[fn] = []
            if 0 < ln <= len(srccache[fn]):
                t_ = srccache[fn][ln - 1]
                # function header lines and loop headers/annotations carry instrumentation blocks
                if special.search(t_) or re.search(r"\b(%s)\s*\(.*\{\s*$" % "|".join(map(re.escape, funcs)), t_):
                    continue
                txt.append((ln, t_.strip()))
        if not txt:
            continue
        total += 1
        if g.get("status") == "satisfied":
            continue
        text = " ".join(x[1] for x in txt)
        if any(re.search(a, text) for a in u.cover_allow):
            continue
        dead.append("%s:%s `%s`" % (os.path.basename(lines[0][0]), ",".join(str(x[0]) for x in txt[:4]), text[:120]))
    return {"blocks": total, "unreachable": dead, "seconds": round(t, 1)}


# ---------------------------------------------------------------- counterexample -> inputs
def c_init(v):
    """CBMC JSON trace value -> C initialiser text."""
    if v is None:
        return "0"
    n = v.get("name")
    if n == "struct":
        parts = []
        for m in v.get("members", []):
            if m["name"].startswith("$pad"):
                continue
            parts.append(".%s = %s" % (m["name"], c_init(m.get("value"))))
        return "{ " + ", ".join(parts) + " }"
    if n == "array":
        els = v.get("elements", [])
        return "{ " + ", ".join(c_init(e.get("value")) for e in els) + " }"
    if n == "union":
        m = v.get("member")
        if m:
            return "{ .%s = %s }" % (m["name"], c_init(m.get("value")))
        return "{ 0 }"
    if n == "pointer":
        return "0"
    if n in ("integer", "float", "boolean"):
        dt = v.get("data", "0")
        if dt in ("TRUE", "true"):
            return "1"
        if dt in ("FALSE", "false"):
            return "0"
        if v.get("binary") and n == "integer":
            w = int(v.get("width", len(v["binary"])))
            val = int(v["binary"], 2)
            ty = v.get("type", "")
            if not ty.startswith("unsigned") and ty not in ("_Bool", "__CPROVER_size_t") and val >= (1 << (w - 1)):
                val -= (1 << w)
                if val == -(1 << (w - 1)):
                    return "(%d - 1)" % (val + 1)
                return str(val)
            return str(val) + ("ull" if w > 32 else "u")
        return re.sub(r"[a-zA-Z]+$", "", dt)
    return "0"


def extract_inputs(trace, entry):
    """first assignment to each variable declared in the harness function"""
    vals = {}
    order = []
    for s in trace:
        if s.get("stepType") != "assignment":
            continue
        if s.get("sourceLocation", {}).get("function") != entry:
            continue
        if s.get("assignmentType") != "variable":
            continue
        lhs = s.get("lhs", "")
        if not re.match(r"^[A-Za-z_]\w*$", lhs) or lhs.startswith("return_value") or lhs.startswith("tmp_"):
            continue
        if lhs not in vals:
            vals[lhs] = s.get("value")
            order.append(lhs)
    return [(k, vals[k]) for k in order]


def short_val(v, depth=0):
    if not isinstance(v, dict):
        return str(v)
    n = v.get("name")
    if n in ("integer", "pointer", "float", "boolean"):
        return v.get("data", "?")
    if n == "struct" and depth < 1:
        return "{" + ", ".join("%s=%s" % (m["name"], short_val(m.get("value"), depth + 1))
                               for m in v.get("members", [])[:24] if not m["name"].startswith("$pad")) + "}"
    if n == "array" and depth < 2:
        return "[" + ", ".join(short_val(e.get("value"), depth + 1) for e in v.get("elements", [])[:24]) + "]"
    return "<%s>" % n


def native_replay(u, inputs, udir, tier):
    """compile the same harness natively (real file #included, inputs from the trace)"""
    hdr = os.path.join(udir, "replay_inputs.h")
    with open(hdr, "w") as f:
        f.write("/* generated from the verifier's counterexample */\n")
        for k, v in inputs:
            f.write("#define RV_%s %s\n" % (k, c_init(v)))
    exe = os.path.join(udir, "replay_native")
    defines = list(u.defines)
    if tier == "thorough" and u.thorough_defines is not None:
        defines = list(u.thorough_defines)
    flags = [f for f in repo_flags()] + ["-D" + d for d in defines]
    flags = [f for f in flags if f != "-D" + GUARD + "=1"]
    srcs = [os.path.join(VERIF, u.harness)] + [os.path.join(VERIF, s) for s in u.native_src]
    cmd = (["gcc", "-O0", "-g", "-w", "-fsanitize=address,undefined", "-fno-sanitize-recover=undefined",
            "-DVERIF_NATIVE=1", "-I" + udir, "-mavx2", "-msse4.1"] + flags + srcs +
           ["-o", exe, "-no-pie", "-Wl,--unresolved-symbols=ignore-all", "-lpthread", "-lm"])
    rc, out, err, t, to = sh(cmd, timeout=300)
    if rc != 0:
        return None, "native twin did not compile: " + err[-800:]
    rc, out, err, t, to = sh(["timeout", "-s", "KILL", "20", exe], timeout=30,
                             env=dict(os.environ, ASAN_OPTIONS="detect_leaks=0"))
    txt = (out + "\n" + err)[-3000:]
    started = "REPLAY: start" in out
    if not started:
        return None, "native twin did not start (no entry point / link problem)\n" + txt
    if to or rc in (137, -9):
        return True, "native twin did not return within 20 s (hang reproduced)\n" + txt
    if rc == 3:
        return None, "native twin: inputs do not satisfy the precondition natively\n" + txt
    if "REPLAY-FAIL" in out:
        return True, "native twin: the real code violates the obligation on the counterexample\n" + txt
    if rc != 0 and re.search(r"AddressSanitizer|runtime error", err):
        return True, "native twin: sanitizer error in the real code on the counterexample (rc=%d)\n%s" % (rc, txt)
    if rc != 0:
        return None, "native twin ended abnormally without a verdict (rc=%d)\n%s" % (rc, txt)
    return False, "native twin ran the real code on the counterexample and the postcondition held\n" + txt


# ---------------------------------------------------------------- running one unit
def file_hashes(u):
    flags = repo_flags() + ["-D" + d for d in u.defines] + ["-DVERIF_CBMC=1", "-DVERIF_DEPS_ONLY=1"]
    rc, out, err, _, _ = sh(["gcc", "-M", "-w"] + flags + [os.path.join(VERIF, u.harness)], timeout=120)
    hs = {}
    for tok in out.replace("\\\n", " ").split():
        if tok.startswith(REPO + "/") and os.path.isfile(tok):
            rp = os.path.relpath(tok, REPO)
            if rp.endswith((".c", ".h")) and rp not in hs:
                hs[rp] = hashlib.sha256(open(tok, "rb").read()).hexdigest()[:16]
    return hs


def classify(results, entry=None):
    ok, failed, canary_ok, canary_bad, other = [], [], [], [], []
    for r in results:
        desc = r.get("description", "")
        st = r.get("status")
        if desc.startswith("CANARY"):
            if st == "FAILURE":
                canary_ok.append(r)
            elif entry is None or r.get("sourceLocation", {}).get("function") == entry:
                canary_bad.append(r)   # a canary of THIS unit's harness function that cannot be reached
        elif st == "SUCCESS":
            ok.append(r)
        elif st == "FAILURE":
            failed.append(r)
        else:
            other.append(r)
    return ok, failed, canary_ok, canary_bad, other


def run_unit(u, tier, known):
    """returns dict with verdict in {'discharged','violation','undecided'}"""
    t0 = time.time()
    res = {"unit": u.uid, "kind": u.kind, "functions": u.functions, "mode": u.mode,
           "backend": ("goto-instrument --dfcc + " if u.mode == "dfcc" else "assume/assert harness + ")
           + "cbmc/" + (u.backend or "minisat"), "what": u.what}
    kf = [k for k in known if (k.get("unit") == u.uid or u.uid in k.get("units", [])) and k.get("status") == "open"]
    try:
        excl = [k["exclude_define"] for k in kf if k.get("exclude_define")]
        udir, gb, log, itext = build_unit(u, tier, extra_defines=excl)
        open(os.path.join(udir, "build.log"), "w").write("\n".join(log))
        results, msgs, status, secs, cmd = run_cbmc(u, gb, udir, tier)
        res["solver_s"] = round(secs, 2)
        res["cmd"] = cmd.replace(SCRATCH, "$SCRATCH")
        ok, failed, c_ok, c_bad, other = classify(results, u.entry)
        res["obligations"] = len(ok) + len(failed) + len(other)
        res["discharged"] = len(ok)
        res["samples"] = ["%s: %s [%s]" % (r["property"], r["description"], r["status"])
                          for r in (ok[:: max(1, len(ok) // 3)][:3])]
        alltxt = " ".join(m[1] for m in msgs) + itext
        # --- guards
        if other and not failed:
            raise Undecided("obligations with status %s (%s)" % (other[0].get("status"), u.uid))
        if re.search(r"ignoring (forall|exists)", alltxt):
            raise Undecided("back end ignored a quantifier (%s)" % u.uid)
        if u.loop_contracts:
            lc = len({r["property"] for r in results if "loop_invariant_base" in r["property"]
                      or re.search(r"loop invariant.*before entry|invariant before entry", r["description"])})
            res["loop_contracts_applied"] = lc
            if lc < u.loop_contracts:
                raise Undecided("expected %d loop contracts, verifier applied %d (%s): a dropped loop "
                                "contract is not a proof" % (u.loop_contracts, lc, u.uid))
        if res["obligations"] < u.min_obligations:
            raise Undecided("vacuity guard: %d obligations generated, at least %d expected (%s)"
                            % (res["obligations"], u.min_obligations, u.uid))
        # a failed obligation comes with a concrete trace, so it stands whatever the canaries say; an unreached
        # canary only threatens a PASS (vacuity), and is checked when nothing failed
        if (len(c_ok) < u.canaries or c_bad) and not failed:
            raise Undecided("vacuity guard: reachability canary not reached (%d of %d, %d proved "
                            "unreachable) in %s — preconditions contradictory or call does not return"
                            % (len(c_ok), u.canaries, len(c_bad), u.uid))
        res["canaries_reached"] = len(c_ok)
        if failed:
            res["verdict"] = "violation"
            res["failed"] = [{"property": r["property"], "description": r["description"],
                              "location": "%s:%s" % (r.get("sourceLocation", {}).get("file", "?"),
                                                     r.get("sourceLocation", {}).get("line", "?")),
                              "function": r.get("sourceLocation", {}).get("function", "?")}
                             for r in failed]
            res["udir"] = udir
            res["gb"] = gb
        else:
            cv = run_cover(u, gb, udir, tier)
            if cv is not None:
                res["reachability"] = {"blocks_of_functions_under_contract": cv["blocks"],
                                       "unreachable": len(cv["unreachable"]), "seconds": cv["seconds"]}
                if cv["blocks"] == 0:
                    raise Undecided("vacuity guard: no basic block of %s found in the coverage run" % u.enforce)
                if cv["unreachable"]:
                    raise Undecided("vacuity guard: %d basic block(s) of the function under contract are unreachable "
                                    "under its contract (dead step => vacuous proof): %s"
                                    % (len(cv["unreachable"]), "; ".join(cv["unreachable"][:4])))
            res["verdict"] = "discharged"
        # --- known findings of this unit.  Run A (above) had every listed witness region excluded and must be
        # clean.  Run B has NO exclusion: each listed finding is "present" if its obligation fails there; a failing
        # obligation that no listed finding (or its stated cascade) accounts for is a VIOLATION.
        res["known"] = []
        kfx = [k for k in kf if k.get("exclude_define")]
        if kfx:
            udir2, gb2, _, _ = build_unit(u, tier, extra_defines=[], tag="_kf")
            r2, m2, s2, secs2, _ = run_cbmc(u, gb2, udir2, tier)
            _, f2, _, _, _ = classify(r2, u.entry)
            accounted = set()
            for k in kfx:
                pat = re.compile(k["obligation"])
                casc = re.compile(k["cascade"]) if k.get("cascade") else None
                hit = [r for r in f2 if pat.search(r["property"] + " " + r["description"])]
                for r in f2:
                    t_ = r["property"] + " " + r["description"]
                    if pat.search(t_) or (casc and hit and casc.search(t_)):
                        accounted.add(r["property"])
                res["known"].append({"id": k["id"], "present": bool(hit), "text": k["text"],
                                     "failing": [r["property"] for r in hit][:5]})
            extra = [r for r in f2 if r["property"] not in accounted]
            if extra and res["verdict"] == "discharged":
                res["verdict"] = "violation"
                res["failed"] = [{"property": r["property"], "description": r["description"],
                                  "location": "%s:%s" % (r.get("sourceLocation", {}).get("file", "?"),
                                                         r.get("sourceLocation", {}).get("line", "?")),
                                  "function": r.get("sourceLocation", {}).get("function", "?")}
                                 for r in extra]
                res["udir"] = udir2
                res["gb"] = gb2
    except Undecided as e:
        res["verdict"] = "undecided"
        res["reason"] = str(e)
    res["wall_s"] = round(time.time() - t0, 2)
    return res


def make_replay(u, res, tier):
    """trace for the root failing obligation, inputs, native twin; returns (path, reproduced)"""
    os.makedirs(os.path.join(OUT_DIR, "replays"), exist_ok=True)
    path = os.path.join(OUT_DIR, "replays", "%s_%s.json" % (u.prop, re.sub(r"\W", "_", u.uid)))
    rep = {"property": u.prop, "unit": u.uid, "functions": u.functions, "failed_obligations": res["failed"],
           "harness": u.harness, "tier": tier}
    reproduced = None
    try:
        first = res["failed"][0]["property"]
        # root obligation = first failing in trace order: ask for a trace of each of the first few and
        # keep the shortest
        results, msgs, status, secs, cmd = run_cbmc(u, res["gb"], res["udir"], tier, trace_prop=first)
        tr = None
        for r in results:
            if r["property"] == first and r.get("trace"):
                tr = r["trace"]
        rep["trace_cmd"] = cmd
        if tr:
            inputs = extract_inputs(tr, u.entry)
            rep["counterexample_inputs"] = {k: short_val(v) for k, v in inputs}
            tail = []
            for s in tr[-60:]:
                if s.get("stepType") == "assignment" and s.get("lhs") and not s.get("hidden"):
                    tail.append("%s = %s  (%s:%s)" % (s["lhs"], short_val(s.get("value")),
                                                        s.get("sourceLocation", {}).get("function", ""),
                                                        s.get("sourceLocation", {}).get("line", "")))
                elif s.get("stepType") == "failure":
                    tail.append("FAILURE: %s (%s:%s)" % (s.get("reason"), s.get("sourceLocation", {}).get("file"),
                                                         s.get("sourceLocation", {}).get("line")))
            rep["verifier_trace_tail"] = tail
            if u.native:
                reproduced, txt = native_replay(u, inputs, res["udir"], tier)
                rep["native_replay"] = {"reproduced": reproduced, "output": txt}
                if os.path.exists(os.path.join(res["udir"], "replay_inputs.h")):
                    rep["replay_inputs_h"] = open(os.path.join(res["udir"], "replay_inputs.h")).read()[:20000]
            else:
                rep["native_replay"] = {"reproduced": None, "output": "unit has no native twin "
                                        "(contract-replaced callees or verifier-built object graph)"}
        else:
            rep["native_replay"] = {"reproduced": None, "output": "verifier gave no trace"}
    except Undecided as e:
        rep["native_replay"] = {"reproduced": None, "output": "trace run undecided: %s" % e}
    rep["verifier_output"] = ["%s: %s at %s in %s" % (f["property"], f["description"], f["location"], f["function"])
                              for f in res["failed"]][:40]
    json.dump(rep, open(path, "w"), indent=1)
    return path, reproduced


# ---------------------------------------------------------------- property level
def load_known():
    p = os.path.join(VERIF, "known_findings.json")
    if not os.path.exists(p):
        return []
    return json.load(open(p)).get("findings", [])


def scan_trusted(units):
    """mechanical scan: __CPROVER_assume in harnesses, stub files, contracts replaced but not enforced"""
    items = []
    enforced = set()
    for u in units:
        if u.enforce:
            enforced.add(u.enforce)
        enforced.update(u.functions if u.mode == "plain" else [])
    seen = set()
    for u in units:
        for r in u.replace:
            if r not in enforced and r not in seen:
                seen.add(r)
                items.append("assumed contract (replaced at call sites, not enforced in this property's units): " + r)
        for k, v in u.replace_calls.items():
            if (k, v) not in seen:
                seen.add((k, v))
                items.append("stub: calls to %s go to %s (%s)" % (k, v, u.uid))
        try:
            txt = open(os.path.join(VERIF, u.harness)).read()
            n = len(re.findall(r"__CPROVER_assume|\bV_ASSUME\(", txt))
            if n and u.harness not in seen:
                seen.add(u.harness)
                items.append("%d assume statement(s) in %s (preconditions of the harness)" % (n, u.harness))
        except OSError:
            pass
        for t in u.trusted:
            if t not in seen:
                seen.add(t)
                items.append(t)
    return items


def run_property(prop, units, tier="quick", seed=0, meta=None, only=None):
    t0 = time.time()
    prepare_scratch()
    known = load_known()
    sel = [u for u in units if u.prop == prop and (tier == "thorough" or u.tier == "quick")]
    if only:
        sel = [u for u in sel if u.uid in only]
    if not sel:
        print("UNDECIDED property=%s reason=no unit selected (unknown property, unit id or tier)" % prop)
        return 2
    rnd = random.Random(seed)
    rnd.shuffle(sel)
    # heavy units first
    sel.sort(key=lambda u: -u.timeout)
    jobs = int(os.environ.get("VERIF_JOBS", "14"))
    results = []
    with cf.ThreadPoolExecutor(max_workers=jobs) as ex:
        futs = {ex.submit(run_unit, u, tier, known): u for u in sel}
        for f in cf.as_completed(futs):
            u = futs[f]
            try:
                r = f.result()
            except Exception as e:  # engine bug = undecided, never a verdict
                r = {"unit": u.uid, "verdict": "undecided", "reason": "engine error: %r" % e, "kind": u.kind,
                     "functions": u.functions}
            results.append((u, r))
            print("[%s] %-34s %-10s obligations=%s discharged=%s %.1fs %s" % (
                prop, u.uid, r["verdict"], r.get("obligations", "-"), r.get("discharged", "-"),
                r.get("wall_s", 0), r.get("reason", "")), flush=True)
    results.sort(key=lambda x: x[0].uid)
    violations, undecided = 0, 0
    lines = []
    for u, r in results:
        for k in r.get("known", []):
            if k["present"]:
                lines.append("KNOWN-FINDING: property=%s %s [%s, unit %s, obligation %s]"
                             % (prop, k["text"], k["id"], u.uid, ",".join(k["failing"][:2])))
        if r["verdict"] == "violation":
            violations += 1
            path, reproduced = make_replay(u, r, tier)
            r["replay"] = path
            for f in r["failed"][:6]:
                print("  failed obligation %s: %s at %s (%s)" % (f["property"], f["description"], f["location"],
                                                                 f["function"]))
            suffix = "" if reproduced else " no-failing-input-found"
            lines.append("VIOLATION property=%s replay=%s%s" % (prop, path, suffix))
        elif r["verdict"] == "undecided":
            undecided += 1
            lines.append("UNDECIDED unit=%s reason=%s" % (u.uid, r.get("reason", "")[:700].replace("\n", " ")))
    for l in lines:
        print(l, flush=True)
    write_evidence(prop, tier, seed, results, sel, time.time() - t0, violations, undecided, meta or {})
    if violations:
        return 1
    if undecided or not sel:
        return 2
    return 0


def write_evidence(prop, tier, seed, results, sel, wall, violations, undecided, meta):
    proved = [(u, r) for u, r in results if u.kind == "proved"]
    bounded = [(u, r) for u, r in results if u.kind != "proved"]
    obl = sum(r.get("obligations", 0) for u, r in proved)
    dis = sum(r.get("discharged", 0) for u, r in proved)
    hashes = {}
    for u in sel:
        try:
            hashes.update(file_hashes(u))
        except Exception:
            pass
    level = meta.get("level", "proof")
    samples = []
    for u, r in results:
        samples += ["%s :: %s" % (u.uid, s) for s in r.get("samples", [])[:2]]
    funcs = sorted({f for u in sel for f in u.functions})
    cov = {
        "obligations": obl, "discharged": dis,
        "checker_cmd": "goto-cc (real /repo translation units, in place) | goto-instrument --dfcc "
                       "--enforce-contract/--replace-call-with-contract/--apply-loop-contracts | cbmc 6.11.0 "
                       "(SAT: minisat2 unless a unit names another back end)",
        "trusted_base": scan_trusted(sel),
        "explanation": meta.get("explanation", ""),
        "functions_under_contract": funcs,
        "units": [{k: r.get(k) for k in ("unit", "kind", "verdict", "functions", "mode", "backend", "obligations",
                                         "discharged", "solver_s", "wall_s", "what", "cmd", "canaries_reached",
                                         "loop_contracts_applied", "reachability", "reason", "known", "replay") if r.get(k) is not None}
                  for u, r in results],
        "bounded_units": [{"unit": u.uid, "bound": (u.thorough_bound if tier == "thorough" and u.thorough_bound
                                                    else (u.quick_bound or u.bound)),
                           "obligations": r.get("obligations", 0),
                           "discharged": r.get("discharged", 0)} for u, r in bounded],
        "samples": samples[:24] or ["(no obligations)"],
        "solver_seconds_total": round(sum(r.get("solver_s", 0) for u, r in results), 1),
        "repo_file_sha256_16": hashes,
        "not_covered": meta.get("not_covered", []),
        "undecided_units": undecided,
        "exhaustive": False,
    }
    if level != "proof":
        bo = sum(r.get("obligations", 0) for u, r in bounded)
        cov["explanation"] = ("bounded: " + cov["explanation"]) if not cov["explanation"].startswith("bounded") else cov["explanation"]
        cov["bounded_obligations"] = bo
        # schema fallback keys are not needed: 'other' requires explanation only
    assumptions = sorted({a for u in sel for a in u.assumptions} | set(meta.get("assumptions", [])))
    ev = {"property_id": prop, "tier": tier, "seed": seed, "level": level, "coverage": cov,
          "assumptions": assumptions, "wall_s": round(wall, 1), "violations": violations}
    os.makedirs(os.path.join(OUT_DIR, "evidence"), exist_ok=True)
    json.dump(ev, open(os.path.join(OUT_DIR, "evidence", prop + ".json"), "w"), indent=1)

#!/usr/bin/env python3
"""Mechanical list of the dispatch pointers declared in an rtcd header (RTCD_EXTERN <type> (*name)(...)):
writes RTCD_POINTERS(P) with one P(name) per pointer.  usage: gen_rtcd.py <header> <out.h> <MACRO_PREFIX>"""
import re, sys
import subprocess
# preprocess with the library's own defines so conditionally compiled pointers are handled as the build does
txt = subprocess.check_output(["gcc", "-E", "-P", "-w"] + sys.argv[4:] + [sys.argv[1]], text=True)
names = re.findall(r"extern\s+[^;(]*?\(\s*\*\s*([A-Za-z_]\w*)\s*\)\s*\(", txt)
seen, uniq = set(), []
for n in names:
    if n not in seen:
        seen.add(n); uniq.append(n)
# keep the pointers that some library source actually CALLS (a declared-but-never-used pointer cannot be jumped to)
import os
root = sys.argv[1].split("/Source/")[0] + "/Source/Lib"
blob = []
for d, _, fs in os.walk(root):
    for fn in fs:
        if fn.endswith((".c", ".h")) and not fn.endswith("rtcd.h") and not fn.endswith("rtcd.c"):
            try:
                blob.append(open(os.path.join(d, fn), errors="replace").read())
            except OSError:
                pass
blob = "\n".join(blob)
called = [n for n in uniq if re.search(r"\b%s\b" % re.escape(n), blob)]
unused = [n for n in uniq if n not in called]
uniq = called
assert len(uniq) > 50, "no dispatch pointers found"
# name-based variant sets (DESIGN C06 U06.1): Variants(P) = declared functions named P (optionally without / with a
# leading svt_) followed by an instruction-set token; defined by NAME, independently of the macro arguments in the .c
# declarations visible to the setup function: preprocess the rtcd .c (it includes every kernel header it needs)
ctxt = subprocess.check_output(["gcc", "-E", "-P", "-w"] + sys.argv[4:] + [sys.argv[1][:-2] + ".c"], text=True)
funcs = set(re.findall(r"\b([A-Za-z_]\w*)\s*\([^;{()]*(?:\([^()]*\)[^;{()]*)*\)\s*;", ctxt))
ISA = r"_(c|sse|sse2|sse3|ssse3|sse4_1|sse41|avx|avx2|avx512)(_\w+)?$"
# hand-reviewed exception table: pointers whose optimised variant is deliberately a SHARED implementation with another
# name (rectangular inverse transforms use the generic svt_av1_highbd_inv_txfm_add_avx2; the high-bit-depth blend mask
# uses an 8-bit-named SSE4.1 kernel; svt_memcpy's variants are svt_memcpy_c / svt_memcpy_intrin_sse)
EXCEPTIONS = set("""svt_aom_highbd_blend_a64_mask svt_av1_inv_txfm2d_add_8x16 svt_av1_inv_txfm2d_add_16x8
svt_av1_inv_txfm2d_add_16x32 svt_av1_inv_txfm2d_add_32x16 svt_av1_inv_txfm2d_add_32x8 svt_av1_inv_txfm2d_add_8x32
svt_av1_inv_txfm2d_add_32x64 svt_av1_inv_txfm2d_add_64x32 svt_av1_inv_txfm2d_add_16x64 svt_av1_inv_txfm2d_add_64x16
svt_memcpy""".split())
variants, irregular = {}, []
for n in uniq:
    if n in EXCEPTIONS:
        irregular.append(n)
        continue
    stems = {n, "svt_" + n, n[4:] if n.startswith("svt_") else n}
    c = sorted(f for f in funcs if any(f.startswith(st) and re.match(ISA, f[len(st):]) for st in stems))
    if c:
        variants[n] = c
    else:
        irregular.append(n)
with open(sys.argv[2], "w") as f:
    f.write("/* pointers without name-derivable variants (irregular names, not covered by the variant check): %s */\n" % " ".join(irregular))
    f.write("#define %s_VARIANT_COUNT %d\n#define %s_VARIANTS(V) \\\n" % (sys.argv[3], len(variants), sys.argv[3]))
    f.write(" \\\n".join("  V(%s, %s)" % (n, " || ".join("(void *)%s == (void *)%s" % (n, c) for c in cs)) for n, cs in variants.items()) + "\n")
    f.write("/* declared but never called anywhere in Source/Lib (excluded): %s */\n" % " ".join(unused))
    f.write("/* generated from %s: %d dispatch pointers */\n#define %s_COUNT %d\n#define %s_POINTERS(P) \\\n" % (sys.argv[1], len(uniq), sys.argv[3], len(uniq), sys.argv[3]))
    f.write(" \\\n".join("  P(%s)" % n for n in uniq) + "\n")

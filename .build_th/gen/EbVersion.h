#define SVT_AV1_CVS_VERSION "v0.8.6-verif"

/* C24 — wavefront EncDec segments.  Real code: Source/Lib/Encoder/Codec/EbEncDecSegments.{h,c} and
 * assign_enc_dec_segments in EbEncDecProcess.c. */
#include "vh.h"
#include <stdlib.h>
#include <string.h>
#include "EbEncDecSegments.h"

#if defined(U24_LEMMAS)
/* U24.1 — geometric lemmas on the real index macros, all picture sizes (W<=65, H<=34 SBs of 64; the 128x128 SB
 * ranges are a subset) and all clamped segment grids: indices in range; the segment of the left neighbour is in the
 * same row with band <=; of the upper neighbour in row r or r-1 with band <=; of the upper-right neighbour in row
 * r or r-1 with THE SAME band (this is what makes the 2-counter dependency scheme sufficient). */
void h_lemmas(void) {
    V_NONDET(unsigned, W); V_NONDET(unsigned, H); V_NONDET(unsigned, sc); V_NONDET(unsigned, sr); V_NONDET(unsigned, x); V_NONDET(unsigned, y);
    V_ASSUME(W >= 1 && W <= 65 && H >= 1 && H <= 34 && sc >= 1 && sc <= 60 && sr >= 1 && sr <= 37);
    sc = sc < W ? sc : W; sr = sr < H ? sr : H;      /* the clamps enc_dec_segments_init applies */
    V_ASSUME(x < W && y < H);
    unsigned sbb = BAND_TOTAL_COUNT(H, W), sgb = BAND_TOTAL_COUNT(sr, sc);
    unsigned b = BAND_INDEX(x, y, sgb, sbb), r = ROW_INDEX(y, sr, H);
    V_ASSERT(b < sgb, "band index in range");
    V_ASSERT(r < sr, "row index in range");
    V_ASSERT(SEGMENT_INDEX(r, b, sgb) < sr * sgb, "segment index below the segment count");
    if (x > 0) { unsigned bl = BAND_INDEX(x - 1, y, sgb, sbb); V_ASSERT(bl <= b && bl + 1 >= b, "left neighbour: same row, same or previous band"); }
    if (y > 0) {
        unsigned ru = ROW_INDEX(y - 1, sr, H), bu = BAND_INDEX(x, y - 1, sgb, sbb);
        V_ASSERT(ru == r || ru + 1 == r, "upper neighbour: same or previous segment row");
        V_ASSERT(bu <= b, "upper neighbour: band not later");
        if (x + 1 < W) { unsigned bur = BAND_INDEX(x + 1, y - 1, sgb, sbb); V_ASSERT(bur == b, "upper-right neighbour: exactly the same band"); }
    }
    V_CANARY("lemmas reached");
}
V_MAIN(h_lemmas)
#endif

#if defined(U24_INIT)
/* U24.2 — table construction, bounded pictures: the tables built by the real enc_dec_segments_init are compared
 * with their set-theoretic definitions (ghost loops): every SB belongs to exactly one segment (counts add up),
 * a row's starting / ending segment are the segments of its FIRST SB (0, y0) and LAST SB (W-1, y1) where y0 / y1 are
 * the first / last SB row mapped to that segment row, the starting segment is non-empty, dependency counters equal
 * the number of non-empty predecessors (left in the row; the segment one band-row up if it lies in the row above's
 * range). */
#include "os_objects.h"
/* CBMC 6.11's built-in memset does not set the elements of a uint16_t array when the length is symbolic (measured):
 * a plain byte-loop model is supplied instead (trusted, 3 lines) */
void *memset(void *s, int c, size_t n) { unsigned char *p = s; for (size_t i = 0; i < n; i++) p[i] = (unsigned char)c; return s; }
#include "Source/Lib/Encoder/Codec/EbEncDecSegments.c"
#ifndef MAXW
#define MAXW 6
#define MAXH 5
#endif
#ifndef WLO
#define WLO 1
#define WHI MAXW
#endif
#ifndef MAXSC
#define MAXSC MAXW
#define MAXSR MAXH
#endif
static void check_init(unsigned W, unsigned H, unsigned sc, unsigned sr) {
    EncDecSegments s;
    unsigned maxrows = MAXSR, maxbands = MAXSR + MAXSC;   /* as enc_dec_segments_ctor sizes them: rows, rows + cols */
    uint16_t xs[MAXSR * (MAXSR + MAXSC)], ys[MAXSR * (MAXSR + MAXSC)], vc[MAXSR * (MAXSR + MAXSC)];
    uint8_t dm[MAXSR * (MAXSR + MAXSC)];
    EncDecSegSegmentRow rows[MAXSR];
    s.segment_max_row_count = maxrows; s.segment_max_band_count = maxbands; s.segment_max_total_count = maxrows * maxbands;
    s.x_start_array = xs; s.y_start_array = ys; s.valid_sb_count_array = vc; s.dep_map.dependency_map = dm; s.row_array = rows;
    enc_dec_segments_init(&s, sc, sr, W, H);
    unsigned R = s.segment_row_count, B = s.segment_band_count, T = s.segment_ttl_count;
    V_ASSERT(R >= 1 && R <= H && R <= sr && T == R * B && T <= s.segment_max_total_count, "grid clamped to the picture and inside the allocated tables");
    /* counts add up: every SB is in exactly one segment */
    unsigned total = 0;
    for (unsigned i = 0; i < MAXSR * (MAXSR + MAXSC); i++) if (i < T) total += vc[i];
    V_ASSERT(total == W * H, "every superblock is counted in exactly one segment");
    V_NONDET(unsigned, row);
    V_ASSUME(row < R);
    unsigned y0 = H, y1 = 0;
    for (unsigned y = 0; y < MAXH; y++) if (y < H && ROW_INDEX(y, R, H) == row) { if (y < y0) y0 = y; y1 = y; }
    V_ASSERT(y0 < H, "every segment row owns at least one SB row");
    unsigned first = SEGMENT_INDEX(row, BAND_INDEX(0, y0, B, s.sb_band_count), B);
    unsigned last = SEGMENT_INDEX(row, BAND_INDEX(W - 1, y1, B, s.sb_band_count), B);
    V_ASSERT(rows[row].starting_seg_index == first, "a row starts at the segment of its first superblock (0, first SB row of the row)");
    V_ASSERT(rows[row].ending_seg_index == last, "a row ends at the segment of its last superblock");
    V_ASSERT(vc[rows[row].starting_seg_index] > 0, "the starting segment of a row is not empty (an empty start would be released without work and start its successor early)");
    V_ASSERT(rows[row].current_seg_index == rows[row].starting_seg_index, "rows start at their first segment");
    /* dependency counter of an arbitrary segment of that row */
    V_NONDET(unsigned, seg);
    V_ASSUME(seg >= rows[row].starting_seg_index && seg <= rows[row].ending_seg_index);
    unsigned exp = 0;
    if (seg > rows[row].starting_seg_index && vc[seg - 1] > 0) exp++;
    if (row > 0 && seg - B >= rows[row - 1].starting_seg_index && seg - B <= rows[row - 1].ending_seg_index && vc[seg - B] > 0) exp++;
    V_ASSERT(dm[seg] == exp, "dependency counter == number of non-empty predecessor segments (left, upper band)");
    V_ASSERT(seg != rows[0].starting_seg_index || row != 0 || dm[seg] == 0, "the first segment of the picture has no predecessor");
    /* necessary for "always completes": only row 0's first segment is started unconditionally (MDC input task); any
     * other segment is started by the decrement that brings its counter to 0, so it needs at least one predecessor */
    V_ASSERT((row == 0 && seg == rows[0].starting_seg_index) || dm[seg] > 0, "every segment except the picture's first has a predecessor that will start it (else the picture never completes)");
}
void h_init(void) {
    V_NONDET(unsigned, W); V_NONDET(unsigned, H); V_NONDET(unsigned, sc); V_NONDET(unsigned, sr);
    V_ASSUME(W >= 1 && W <= MAXW && H >= 1 && H <= MAXH && sc >= 1 && sc <= MAXSC && sr >= 1 && sr <= MAXSR);
    check_init(W, H, sc, sr);
    V_CANARY("init reached");
}
/* enumerated family: every geometry of the stated box with CONSTANT loop bounds (symbolic execution folds the table
 * construction; only the witness row / segment stay symbolic) — bounded, far larger box than the symbolic unit */
void h_init_enum(void) {
    for (unsigned W = WLO; W <= WHI; W++)
        for (unsigned H = 1; H <= MAXH; H++)
            for (unsigned sc = 1; sc <= MAXSC; sc++)
                for (unsigned sr = 1; sr <= MAXSR; sr++) check_init(W, H, sc, sr);
    V_CANARY("enumeration completed");
}
#endif

#if defined(U24_ASSIGN)
/* U24.3 — assign_enc_dec_segments, the CONTINUE step, as an atomic step under the row mutexes.  Ghost lock model +
 * hooks: each of the two dependency counters is written only while the mutex of the ROW THAT OWNS THAT COUNTER is
 * held (snapshot at lock and unlock time). */
#include "EbEncDecTasks.h"
#include "EbSystemResourceManager.h"
EncDecSegments *g_s; unsigned g_right, g_below; int g_has_right, g_has_below; uint8_t g_dr0, g_db0; int g_disc = 1;
EbHandle g_mr, g_mb;
#define GHOST_LOCK_HOOK(h) do { \
    if (g_has_right && (h) == g_mr && g_s->dep_map.dependency_map[g_right] != g_dr0) g_disc = 0; \
    if (g_has_below && (h) == g_mb && g_s->dep_map.dependency_map[g_below] != g_db0) g_disc = 0; } while (0)
#define GHOST_UNLOCK_HOOK(h) do { \
    if (g_has_right && (h) == g_mr && g_s->dep_map.dependency_map[g_right] != (uint8_t)(g_dr0 - 1)) g_disc = 0; \
    if (g_has_below && (h) == g_mb && g_s->dep_map.dependency_map[g_below] != (uint8_t)(g_db0 - 1)) g_disc = 0; } while (0)
#include "ghost_threads.h"
int g_feedback_posts; int g_feedback_row;
static EncDecTasks g_fb_task; static EbObjectWrapper g_fb_wrapper;
EbErrorType svt_get_empty_object(EbFifo *f, EbObjectWrapper **w) { (void)f; g_fb_wrapper.object_ptr = &g_fb_task; *w = &g_fb_wrapper; return EB_ErrorNone; }
EbErrorType svt_post_full_object(EbObjectWrapper *o) { __CPROVER_assert(g_nheld == 0, "feedback task posted with no row mutex held"); g_feedback_posts++; g_feedback_row = ((EncDecTasks *)o->object_ptr)->enc_dec_segment_row; return EB_ErrorNone; }
void svt_log(int level, const char *tag, const char *fmt, ...) { (void)level; (void)tag; (void)fmt; }
#include "Source/Lib/Encoder/Codec/EbEncDecProcess.c"
void h_assign(void) {
    EncDecSegments *s = malloc(sizeof(*s));
    V_NONDET(unsigned, rows); V_NONDET(unsigned, bands); V_NONDET(uint16_t, seg); V_NONDET(unsigned, t);
    V_ASSUME(s != NULL && rows >= 1 && rows <= 37 && bands >= rows && bands <= 97);
    s->segment_row_count = rows; s->segment_band_count = bands; s->segment_ttl_count = rows * bands;
    s->dep_map.dependency_map = malloc(rows * bands);
    s->row_array = malloc(sizeof(EncDecSegSegmentRow) * rows);
    EncDecTasks *task = malloc(sizeof(*task));
    V_ASSUME(s->dep_map.dependency_map && s->row_array && task);
    task->input_type = ENCDEC_TASKS_CONTINUE;
    V_ASSUME(seg < rows * bands);
    unsigned r = seg / bands;
    /* representation invariant of the rows touched (established by enc_dec_segments_init, U24.2) */
    V_ASSUME(s->row_array[r].starting_seg_index >= r * bands && s->row_array[r].ending_seg_index < (r + 1) * bands &&
             s->row_array[r].starting_seg_index <= seg && seg <= s->row_array[r].ending_seg_index);
    V_ASSUME(s->row_array[r].current_seg_index > seg && s->row_array[r].current_seg_index <= s->row_array[r].ending_seg_index + 1);
    V_ASSUME(s->row_array[r].assignment_mutex != NULL);
    if (r + 1 < rows) {
        V_ASSUME(s->row_array[r + 1].starting_seg_index >= (r + 1) * bands && s->row_array[r + 1].ending_seg_index < (r + 2) * bands &&
                 s->row_array[r + 1].current_seg_index >= s->row_array[r + 1].starting_seg_index &&
                 s->row_array[r + 1].current_seg_index <= s->row_array[r + 1].ending_seg_index + 1);
        V_ASSUME(s->row_array[r + 1].assignment_mutex != NULL && s->row_array[r + 1].assignment_mutex != s->row_array[r].assignment_mutex);
    }
    unsigned right = seg + 1, below = seg + bands;
    int has_right = seg < s->row_array[r].ending_seg_index;
    int has_below = (r + 1 < rows) && below >= s->row_array[r + 1].starting_seg_index;
    /* J: a successor that still waits for `seg` has a positive counter and has not been started */
    if (has_right) V_ASSUME(s->dep_map.dependency_map[right] >= 1 && s->row_array[r].current_seg_index == right);
    if (has_below) V_ASSUME(s->dep_map.dependency_map[below] >= 1 && s->dep_map.dependency_map[below] <= 2);
    V_ASSUME(t < rows * bands);   /* arbitrary witness segment */
    uint8_t dep_t_old = s->dep_map.dependency_map[t];
    uint8_t dr_old = has_right ? s->dep_map.dependency_map[right] : 0, db_old = has_below ? s->dep_map.dependency_map[below] : 0;
    uint16_t cur_r_old = s->row_array[r].current_seg_index, cur_b_old = (r + 1 < rows) ? s->row_array[r + 1].current_seg_index : 0;
    g_s = s; g_right = right; g_below = below; g_has_right = has_right; g_has_below = has_below; g_dr0 = dr_old; g_db0 = db_old;
    g_mr = s->row_array[r].assignment_mutex; g_mb = (r + 1 < rows) ? s->row_array[r + 1].assignment_mutex : 0;
    uint16_t io = seg; EbFifo fifo;
    EbBool cont = assign_enc_dec_segments(s, &io, task, &fifo);
    V_ASSERT(g_nheld == 0 && g_locks == g_unlocks, "every row mutex is released");
    V_ASSERT(g_locks == (unsigned)(has_right + has_below), "one critical section per successor");
    V_ASSERT(g_disc == 1, "each dependency counter is decremented only while the mutex of the row that owns it is held");
    V_ASSERT(s->dep_map.dependency_map[t] == (uint8_t)(dep_t_old - ((has_right && t == right) ? 1 : 0) - ((has_below && t == below) ? 1 : 0)),
             "exactly the right and bottom-left counters are decremented, by one; every other counter untouched");
    int right_ready = has_right && dr_old == 1, below_ready = has_below && db_old == 1;
    V_ASSERT(cont == (right_ready || below_ready), "the worker continues iff a successor became ready");
    V_ASSERT(!right_ready || (io == right && s->row_array[r].current_seg_index == cur_r_old + 1), "a ready right neighbour is self-assigned, exactly once");
    V_ASSERT(!(below_ready && !right_ready) || (io == cur_b_old && s->row_array[r + 1].current_seg_index == cur_b_old + 1), "a ready bottom-left neighbour is self-assigned when the right one is not");
    V_ASSERT((right_ready && below_ready) == (g_feedback_posts == 1), "both ready => exactly one feedback task, otherwise none");
    V_ASSERT(!(right_ready && below_ready) || g_feedback_row == (int)r + 1, "the feedback task carries the row below");
    V_ASSERT(right_ready || s->row_array[r].current_seg_index == cur_r_old, "a segment whose counter is not zero is not started");
    V_CANARY("assign returns");
    __CPROVER_assert(!(right_ready && below_ready), "CANARY both successors can become ready at once");
}
#endif

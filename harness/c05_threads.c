/* C05 (configuration level) — "output does not depend on the number of threads": the function that turns the
 * processor count into the encoder's parallel structure writes ONLY parallel geometry and pool/FIFO/process
 * counts.  FRAME contract, checked mechanically: every leaf field of SequenceControlSet (list generated from DWARF on
 * every run) whose name is not a segment / tile-group / *_init_count / scd_delay field is bit-identical before and
 * after the call, for ANY processor count returned by the OS and any configuration. */
#include "vh.h"
#include <stdlib.h>
#include <string.h>
void svt_log(int level, const char *tag, const char *fmt, ...) { (void)level; (void)tag; (void)fmt; }
#include "Source/Lib/Encoder/Globals/EbEncHandle.c"
#include "c05_layout.h"
#include "c05_cfg_layout.h"
CPU_FLAGS g_detected, g_to_use;
CPU_FLAGS get_cpu_flags(void) { return g_detected; }
CPU_FLAGS get_cpu_flags_to_use(void) { return g_to_use; }   /* any detected / usable instruction-set masks */
long nondet_long(void);
long sysconf(int n) { long r = nondet_long(); (void)n; __CPROVER_assume(r >= 1 && r <= 1024); return r; }
void h_frame(void) {
    SequenceControlSet *scs = malloc(sizeof(*scs));
    __CPROVER_assume(scs != NULL);
    __CPROVER_assume(scs->static_config.tile_rows >= 0 && scs->static_config.tile_rows <= 6 && scs->static_config.hierarchical_levels <= 5 &&
                     scs->static_config.look_ahead_distance <= 120 && scs->static_config.logical_processors <= 1024 &&
                     scs->static_config.intra_period_length >= -2 && scs->static_config.intra_period_length <= 2147483646);  /* accepted configuration (C12) */
    num_groups = 1;
    { CPU_FLAGS d, t; g_detected = d; g_to_use = t; }   /* statics are zero in the verifier: make the CPU sets symbolic explicitly */
    /* snapshots, member by member (list generated from the DWARF layout on this run) */
#define M(path, name, size) __typeof__(scs->path) b_##path; memcpy(&b_##path, &scs->path, sizeof(b_##path));
    LAYOUT_MEMBERS(M)
#undef M
#define M(path, name, size) char w0_##path = ((const char *)&scs->path)[0], w1_##path = ((const char *)&scs->path)[(size) - 1];
    LAYOUT_BIG_MEMBERS(M)
#undef M
    /* the configuration, member by member (second generated list); use_cpu_flags is the one documented exception */
#define M(path, name, size) __typeof__(scs->static_config.path) c_##path; memcpy(&c_##path, &scs->static_config.path, sizeof(c_##path));
    CFG_LAYOUT_MEMBERS(M)
#undef M
    CPU_FLAGS requested = scs->static_config.use_cpu_flags;
    EbErrorType e = load_default_buffer_configuration_settings(scs);
    V_ASSERT(e == EB_ErrorNone || e == EB_ErrorInsufficientResources, "returns success or an error code");
#define M(path, name, size) V_ASSERT(memcmp(&scs->path, &b_##path, sizeof(b_##path)) == 0, "thread-count derivation does not write '" name "' (not parallel geometry)");
    LAYOUT_MEMBERS(M)
#undef M
#define M(path, name, size) V_ASSERT(((const char *)&scs->path)[0] == w0_##path && ((const char *)&scs->path)[(size) - 1] == w1_##path, "thread-count derivation does not write '" name "' (first and last byte of a large member; a symbolic witness byte over 70 KB tables exhausts the solver)");
    LAYOUT_BIG_MEMBERS(M)
#undef M
#define M(path, name, size) V_ASSERT(memcmp(&scs->static_config.path, &c_##path, sizeof(c_##path)) == 0, "thread-count derivation does not write configuration field '" name "'");
    CFG_LAYOUT_MEMBERS(M)
#undef M
    /* C06 U06.2: the instruction-set flags actually used are a subset of requested AND usable-on-this-CPU */
    V_ASSERT(e != EB_ErrorNone || scs->static_config.use_cpu_flags == (requested & g_to_use), "instruction-set flags used == requested & usable (never more than the CPU offers, never more than asked)");
    V_CANARY("buffer configuration returns");
    __CPROVER_assert(!(e == EB_ErrorNone && scs->static_config.use_cpu_flags != 0 && scs->static_config.use_cpu_flags != requested), "CANARY a proper non-empty subset of the requested instruction sets is selected");
}

/* C16 — per-constructor failure closure (DESIGN §4): under the verifier's failing-allocation mode EVERY subset of
 * the allocations / OS-object creations made by the constructor may fail.  Obligations:
 *   - the constructor returns EB_ErrorNone or an error code;
 *   - on error, after the destructor that EB_NEW runs, nothing allocated by this constructor is still live
 *     (--memory-leak-check), nothing is freed twice, nothing NULL is dereferenced;
 *   - on success the object invariant holds and EB_DELETE releases everything.
 * EB_NEW / EB_DELETE / EB_MALLOC_ARRAY / EB_CREATE_* are macros: they are verified as expanded here. */
#include "vh.h"
#include "os_objects.h"
#include "EbObject.h"
#include "EbMalloc.h"
#if defined(U16_SRM)
#ifdef U16_CALLOC_MODEL
#include "calloc_small.h"
#endif
#include "EbSystemResourceManager.h"
#include "Source/Lib/Common/Codec/EbSystemResourceManager.c"

typedef struct Obj { EbDctor dctor; int *p; } Obj;
static void obj_dctor(EbPtr p) { Obj *o = (Obj *)p; free(o->p); }
static EbErrorType obj_ctor(Obj *o) { o->dctor = obj_dctor; o->p = malloc(4); if (!o->p) return EB_ErrorInsufficientResources; return EB_ErrorNone; }
static EbErrorType obj_creator(EbPtr *dbl, EbPtr init) { Obj *o; (void)init; *dbl = NULL; EB_NEW(o, obj_ctor); *dbl = o; return EB_ErrorNone; }

/* ---- contract stubs for CALLEE constructors (modular: each real one is verified in its own unit).
 * A stub either fails without leaving anything allocated, or succeeds owning exactly one resource that its
 * destructor releases — the resource accounting every real constructor is proved to have. ---- */
EbErrorType stub_cb_ctor(EbCircularBuffer *b, uint32_t n) {
    b->dctor = svt_circular_buffer_dctor; b->buffer_total_count = n;
    b->array_ptr = malloc(sizeof(EbPtr));
    if (!b->array_ptr) return EB_ErrorInsufficientResources;
    return EB_ErrorNone;
}
EbErrorType stub_fifo_ctor(EbFifo *f, uint32_t a, uint32_t b, EbObjectWrapper *first, EbObjectWrapper *last, EbMuxingQueue *q) {
    (void)a; (void)b;
    f->dctor = svt_fifo_dctor; f->counting_semaphore = NULL; f->first_ptr = first; f->last_ptr = last; f->queue_ptr = q; f->quit_signal = EB_FALSE;
    f->lockout_mutex = svt_create_mutex();
    if (!f->lockout_mutex) return EB_ErrorInsufficientResources;
    return EB_ErrorNone;
}
void stub_mq_dctor(EbPtr p) { EbMuxingQueue *q = (EbMuxingQueue *)p; if (q->lockout_mutex) svt_destroy_mutex(q->lockout_mutex); }
EbErrorType stub_mq_ctor(EbMuxingQueue *q, uint32_t n, uint32_t p) {
    (void)n; q->dctor = stub_mq_dctor; q->process_total_count = p;
    q->lockout_mutex = svt_create_mutex();
    if (!q->lockout_mutex) return EB_ErrorInsufficientResources;
    return EB_ErrorNone;
}
EbErrorType stub_mq_push_back(EbMuxingQueue *q, EbObjectWrapper *o) {
    __CPROVER_assert(q != NULL && o != NULL, "fill of the empty queue: queue and wrapper exist");
    return EB_ErrorNone;
}
static EbErrorType new_fifo(EbFifo **f, uint32_t a, uint32_t b, EbMuxingQueue *q) { EB_NEW(*f, svt_fifo_ctor, a, b, NULL, NULL, q); return EB_ErrorNone; }
static EbErrorType new_cb(EbCircularBuffer **c, uint32_t n) { EB_NEW(*c, svt_circular_buffer_ctor, n); return EB_ErrorNone; }
static EbErrorType new_mq(EbMuxingQueue **q, uint32_t n, uint32_t p) { EB_NEW(*q, svt_muxing_queue_ctor, n, p); return EB_ErrorNone; }
static EbErrorType new_res(EbSystemResource **r, uint32_t n, uint32_t p, uint32_t c) { EB_NEW(*r, svt_system_resource_ctor, n, p, c, obj_creator, NULL, NULL); return EB_ErrorNone; }

void h_fifo(void) {
    V_NONDET(uint32_t, a); V_NONDET(uint32_t, b);
    EbFifo *f = 0; EbMuxingQueue q;
    EbErrorType e = new_fifo(&f, a, b, &q);
    V_ASSERT(e == EB_ErrorNone || e == EB_ErrorInsufficientResources, "fifo ctor: error code on failure");
    if (e == EB_ErrorNone) {
        V_ASSERT(f->lockout_mutex != NULL && f->counting_semaphore != NULL && f->lockout_mutex != f->counting_semaphore &&
                 f->first_ptr == NULL && f->last_ptr == NULL && f->queue_ptr == &q && f->quit_signal == EB_FALSE,
                 "fifo ctor: object invariant (own mutex and semaphore, empty list, back pointer, not shut down)");
        V_CANARY("fifo constructed");
        EB_DELETE(f);
    } else { V_CANARY("fifo construction failed"); }
}
void h_cb(void) {
    V_NONDET(uint32_t, n);
    V_ASSUME(n >= 1 && n <= 4096);
    EbCircularBuffer *c = 0;
    EbErrorType e = new_cb(&c, n);
    V_ASSERT(e == EB_ErrorNone || e == EB_ErrorInsufficientResources, "circular buffer ctor: error code on failure");
    if (e == EB_ErrorNone) {
        V_NONDET(uint32_t, k);
        V_ASSUME(k < n);
        V_ASSERT(c->buffer_total_count == n && c->head_index == 0 && c->tail_index == 0 && c->current_count == 0 && c->array_ptr[k] == NULL,
                 "circular buffer ctor: representation invariant of the EMPTY buffer (every slot NULL: witness k)");
        V_CANARY("buffer constructed");
        EB_DELETE(c);
    } else { V_CANARY("buffer construction failed"); }
}
void h_mq(void) {
    V_NONDET(uint32_t, n); V_NONDET(uint32_t, p);
#ifdef MQ_CN   /* one unit per (object count, process count): constant allocation sizes, symbolic failure subset */
    n = MQ_CN; p = MQ_CP;
#endif
    V_ASSUME(n >= 1 && n <= 2 && p >= 1 && p <= MQ_MAXP);
    EbMuxingQueue *q = 0;
    EbErrorType e = new_mq(&q, n, p);
    V_ASSERT(e == EB_ErrorNone || e == EB_ErrorInsufficientResources, "muxing queue ctor: error code on failure");
    if (e == EB_ErrorNone) {
        V_NONDET(uint32_t, k);
        V_ASSUME(k < p);
        V_ASSERT(q->lockout_mutex != NULL && q->object_queue != NULL && q->process_queue != NULL && q->object_queue != q->process_queue &&
                 q->process_total_count == p && q->process_fifo_ptr_array[k] != NULL &&
                 q->process_fifo_ptr_array[k]->lockout_mutex != q->lockout_mutex && q->process_fifo_ptr_array[k]->queue_ptr == q,
                 "muxing queue ctor: object invariant (own mutex, two distinct buffers, one FIFO per process with its own mutex)");
        V_CANARY("queue constructed");
        EB_DELETE(q);
    } else { V_CANARY("queue construction failed"); }
}
void h_res(void) {
    V_NONDET(uint32_t, n); V_NONDET(uint32_t, p); V_NONDET(uint32_t, c);
#ifdef RES_CN
    n = RES_CN; p = 1; c = RES_CC;
#endif
    V_ASSUME(n >= 1 && n <= RES_MAXN && p >= 1 && p <= 1 && c <= 1);
    EbSystemResource *r = 0;
    EbErrorType e = new_res(&r, n, p, c);
    V_ASSERT(e == EB_ErrorNone || e == EB_ErrorInsufficientResources, "system resource ctor: error code on failure");
    if (e == EB_ErrorNone) {
        V_ASSERT(r->empty_queue != NULL && (c == 0) == (r->full_queue == NULL) && r->object_total_count == n && r->wrapper_ptr_pool[0] != NULL &&
                 r->wrapper_ptr_pool[0]->system_resource_ptr == r && r->wrapper_ptr_pool[0]->release_enable == EB_TRUE,
                 "system resource ctor: object invariant");
        V_CANARY("resource constructed");
        EB_DELETE(r);
    } else { V_CANARY("resource construction failed"); }
}
#endif
#if defined(U16_SEG)
#include "Source/Lib/Encoder/Codec/EbEncDecSegments.c"
static EbErrorType new_seg(EncDecSegments **s, uint32_t c, uint32_t r) { EB_NEW(*s, enc_dec_segments_ctor, c, r); return EB_ErrorNone; }
void h_seg(void) {
    V_NONDET(uint32_t, cols); V_NONDET(uint32_t, rows);
    V_ASSUME(cols >= 1 && cols <= 3 && rows >= 1 && rows <= 3);
    EncDecSegments *s = 0;
    EbErrorType e = new_seg(&s, cols, rows);
    V_ASSERT(e == EB_ErrorNone || e == EB_ErrorInsufficientResources, "segments ctor: error code on failure");
    if (e == EB_ErrorNone) {
        V_NONDET(uint32_t, k);
        V_ASSUME(k < rows);
        V_ASSERT(s->segment_max_row_count == rows && s->segment_max_band_count == rows + cols && s->segment_max_total_count == rows * (rows + cols) &&
                 s->row_array[k].assignment_mutex != NULL && s->dep_map.update_mutex != NULL, "segments ctor: object invariant");
        V_CANARY("segments constructed");
        EB_DELETE(s);
    } else { V_CANARY("segments construction failed"); }
}
#endif
#if defined(U16_THREADS)
/* the thread-array macros of EbThreads.h, as every kernel-thread creation site of svt_av1_enc_init uses them */
cpu_set_t group_affinity;
static void *kernel(void *p) { return p; }
typedef struct { EbHandle *thread_handle_array; } Owner; /* the macros are used on a member of the encoder handle */
static EbErrorType make_threads(Owner *o, uint32_t n, void **ctx) { EB_CREATE_THREAD_ARRAY(o->thread_handle_array, n, kernel, ctx); return EB_ErrorNone; }
void h_threads(void) {
    V_NONDET(uint32_t, n);
    V_ASSUME(n >= 1 && n <= 3);
    Owner o = {0}; void *ctx[3] = {0, 0, 0};
    EbErrorType e = make_threads(&o, n, ctx);
    V_ASSERT(e == EB_ErrorNone || e == EB_ErrorInsufficientResources, "thread array: error code on failure");
    if (e == EB_ErrorNone) { V_CANARY("threads created"); } else { V_CANARY("thread creation failed"); }
    /* teardown as svt_enc_handle_dctor does it, whatever was created */
    EB_DESTROY_THREAD_ARRAY(o.thread_handle_array, n);
}
#endif

/* C03 — "each packet carries the pts / flags / application data of the picture that was submitted": the two header
 * copies on the way in (svt_av1_enc_send_picture -> copy_input_buffer of EbEncHandle.c; the overlay / alt-ref copy ->
 * copy_input_buffer of EbResourceCoordinationProcess.c).  Contract of each: every scalar header field of the
 * destination equals the source's (pts, flags, pic_type, qp, sizes, tick count); no metadata <=> NULL metadata.
 * The pixel and metadata deep copies are other units' (C21) and have their bodies removed here. */
#include "vh.h"
#include <stdlib.h>
void svt_log(int level, const char *tag, const char *fmt, ...) { (void)level; (void)tag; (void)fmt; }
#ifdef U03_COPY_RCO
#include "Source/Lib/Encoder/Codec/EbResourceCoordinationProcess.c"
#else
#include "Source/Lib/Encoder/Globals/EbEncHandle.c"
#endif
EbErrorType stub_copy_frame(SequenceControlSet *s, uint8_t *d, uint8_t *r) { __CPROVER_assert(s && d && r, "copy_frame_buffer: arguments not NULL"); return EB_ErrorNone; }
EbErrorType stub_copy_md(EbBufferHeaderType *d, EbBufferHeaderType *r) { __CPROVER_assert(d && r && r->metadata, "copy_metadata_buffer: metadata present"); return EB_ErrorNone; }
void h_copyhdr(void) {
    SequenceControlSet *scs = malloc(sizeof(*scs));
    EbBufferHeaderType *dst = malloc(sizeof(*dst)), *src = malloc(sizeof(*src));
    __CPROVER_assume(scs && dst && src);
    { _Bool has_md; SvtMetadataArrayT *md = malloc(sizeof(*md)); __CPROVER_assume(md); md->sz = 0; md->metadata_array = NULL; src->metadata = has_md ? md : NULL; }
    { _Bool has_pic; src->p_buffer = has_pic ? malloc(8) : NULL; dst->p_buffer = malloc(8); }
    EbBufferHeaderType s0 = *src;
    copy_input_buffer(scs, dst, src);
    V_ASSERT(dst->pts == s0.pts, "pts of the submitted picture is copied");
    V_ASSERT(dst->flags == s0.flags, "flags (EOS, ...) are copied");
    V_ASSERT(dst->pic_type == s0.pic_type && dst->qp == s0.qp, "forced picture type and per-picture QP are copied");
    V_ASSERT(dst->n_alloc_len == s0.n_alloc_len && dst->n_filled_len == s0.n_filled_len && dst->size == s0.size && dst->n_tick_count == s0.n_tick_count, "size fields and tick count are copied");
    V_ASSERT(s0.metadata != NULL || dst->metadata == NULL, "no metadata submitted => none attached");
    V_ASSERT(src->pts == s0.pts && src->flags == s0.flags, "the caller's header is not modified");
    V_CANARY("header copy returns");
}

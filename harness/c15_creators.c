/* C15 / C16 — creator / destroyer pairs of the encoder's pool objects (EbEncHandle.c): svt_system_resource_ctor builds
 * each pool element through svt_object_wrapper_ctor(creator) and releases it through svt_object_wrapper_dctor
 * (`if (object_ptr) destroyer(object_ptr)`).  Obligation, for EVERY subset of failing allocations inside the
 * creator: whatever the creator allocated is reachable from *object_dbl_ptr, so that this release frees it
 * (--memory-leak-check: nothing leaked, nothing freed twice); on success the destroyer releases everything. */
#include "vh.h"
#include <stdlib.h>
#include "os_objects.h"
#include "EbEncHandle.h"
#include "EbSequenceControlSet.h"
#include "EbPictureBufferDesc.h"
/* contract stub of the picture-buffer constructor (its own allocations: not in this unit): fails without leaving
 * anything allocated, or succeeds owning one resource that its destructor releases */
static void stub_pbd_dctor(EbPtr p) { EbPictureBufferDesc *b = (EbPictureBufferDesc *)p; free(b->buffer_y); }
EbErrorType svt_picture_buffer_desc_ctor(EbPictureBufferDesc *b, EbPtr init) {
    __CPROVER_assert(b != NULL && init != NULL, "picture buffer ctor: arguments not NULL");
    b->dctor = stub_pbd_dctor; b->buffer_bit_inc_y = NULL; b->buffer_bit_inc_cb = NULL; b->buffer_bit_inc_cr = NULL;
    b->buffer_y = malloc(1);
    if (!b->buffer_y) return EB_ErrorInsufficientResources;
    return EB_ErrorNone;
}
int posix_memalign(void **p, size_t a, size_t n) { (void)a; void *q = malloc(n ? 1 : 1); if (!q) return 12; *p = q; return 0; }
#include "Source/Lib/Encoder/Globals/EbEncHandle.c"
static SequenceControlSet g_scs;
void h_creators(void) {
    SequenceControlSet *scs = &g_scs;
    V_NONDET(uint32_t, w); V_NONDET(uint32_t, h); V_NONDET(uint32_t, bd); V_NONDET(uint32_t, cten); V_NONDET(uint16_t, fw); V_NONDET(uint16_t, fh);
    __CPROVER_assume(w >= 64 && w <= 4096 && h >= 64 && h <= 2304 && (bd == 8 || bd == 10) && cten <= 1 && fw <= 4096 && fh <= 2304);
    scs->max_input_luma_width = (uint16_t)w; scs->max_input_luma_height = (uint16_t)h;
    scs->static_config.encoder_bit_depth = bd; scs->static_config.compressed_ten_bit_format = cten;
    scs->static_config.encoder_color_format = EB_YUV420;
    scs->seq_header.max_frame_width = fw; scs->seq_header.max_frame_height = fh;
    V_NONDET(unsigned, which);
    EbPtr obj = (EbPtr)1;   /* the wrapper's object_ptr before the creator runs: anything */
    EbErrorType e;
    if (which == 0) {
        e = svt_input_buffer_header_creator(&obj, scs);
        V_ASSERT(e == EB_ErrorNone || e == EB_ErrorInsufficientResources, "input buffer creator: error code on failure");
        V_ASSERT(e != EB_ErrorNone || obj != NULL, "input buffer creator: success yields an object");
        if (e == EB_ErrorNone) V_CANARY("input buffer created"); 
        if (obj) svt_input_buffer_header_destroyer(obj);      /* svt_object_wrapper_dctor */
    } else if (which == 1) {
        e = svt_output_buffer_header_creator(&obj, scs);
        V_ASSERT(e == EB_ErrorNone || e == EB_ErrorInsufficientResources, "output buffer creator: error code on failure");
        V_ASSERT(e != EB_ErrorNone || obj != NULL, "output buffer creator: success yields an object");
        if (obj) svt_output_buffer_header_destroyer(obj);
    } else {
        e = svt_output_recon_buffer_header_creator(&obj, scs);
        V_ASSERT(e == EB_ErrorNone || e == EB_ErrorInsufficientResources, "recon buffer creator: error code on failure");
        V_ASSERT(e != EB_ErrorNone || obj != NULL, "recon buffer creator: success yields an object");
        if (obj) svt_output_recon_buffer_header_destroyer(obj);
    }
    V_CANARY("a creator / destroyer pair returned");
}

/* Common harness vocabulary. The same harness text is (a) verified by CBMC and (b) compiled natively
 * (-DVERIF_NATIVE) as the replay twin, with the inputs taken from the verifier's counterexample. */
#ifndef VERIF_VH_H
#define VERIF_VH_H
#ifdef VERIF_NATIVE
#include <stdio.h>
#include <stdlib.h>
#include "replay_inputs.h"
#define V_NONDET(type, name) type name = RV_##name
#define V_ASSUME(c) do { if (!(c)) { printf("REPLAY: precondition not met natively: %s\n", #c); exit(3); } } while (0)
#define V_ASSERT(c, msg) do { if (!(c)) { printf("REPLAY-FAIL: obligation violated on the real code: %s\n", msg); exit(1); } } while (0)
#define V_CANARY(msg) do { } while (0)
/* native entry point of the replay twin */
#define V_MAIN(fn) int main(void) { setvbuf(stdout, 0, _IONBF, 0); printf("REPLAY: start\n"); fn(); printf("REPLAY: postcondition held\n"); return 0; }
#else
#define V_NONDET(type, name) type name
#define V_ASSUME(c) __CPROVER_assume(c)
#define V_ASSERT(c, msg) __CPROVER_assert(c, msg)
/* must be reported FAILED by the verifier: shows the preconditions are satisfiable and the call returns */
#define V_CANARY(msg) __CPROVER_assert(0, "CANARY " msg)
#define V_MAIN(fn)
#endif
/* files of the /repo working tree are included as "Source/Lib/…/X.c" (the engine passes -I<repo root>) */
#endif

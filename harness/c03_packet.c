/* C03 (packet-forming code only) — mechanical block slices of packetization_kernel + the pts comparator.
 * What a slice drops: everything of the kernel outside the statement range (see DESIGN §4). */
#include "vh.h"
#include <stdlib.h>
#include "EbDefinitions.h"
#include "EbSystemResourceManager.h"
void svt_log(int level, const char *tag, const char *fmt, ...) { (void)level; (void)tag; (void)fmt; }
/* ---- logging stubs for the drain-loop slice ---- */
#define MAXPOST 4
EbObjectWrapper *g_posted[MAXPOST]; uint32_t g_posted_flags[MAXPOST]; unsigned g_nposts;
EbErrorType stub_post_full_object(EbObjectWrapper *w) {
    __CPROVER_assert(w != NULL, "post: wrapper not NULL");
    if (g_nposts < MAXPOST) { g_posted[g_nposts] = w; g_posted_flags[g_nposts] = ((EbBufferHeaderType *)w->object_ptr)->flags; }
    g_nposts++;
    return EB_ErrorNone;
}
unsigned g_released; int g_released_frames; unsigned g_tu_encoded, g_show_encoded;
#ifdef SCRATCH_EbPacketizationProcess_c
#include SCRATCH_EbPacketizationProcess_c
#else
#include "Source/Lib/Encoder/Codec/EbPacketizationProcess.c"
#endif
EbObjectWrapper *g_existed;
void stub_collect(PacketizationContext *c, const EncodeContext *e, int frames) { (void)c; (void)e; (void)frames; }
EbErrorType stub_encode_tu(EncodeContext *e, int frames, uint32_t total, EbBufferHeaderType *o) { (void)e; (void)frames; (void)total; g_tu_encoded++; o->flags |= EB_BUFFERFLAG_HAS_TD; return EB_ErrorNone; }
void stub_encode_show_existing(EncodeContext *e, PacketizationReorderEntry *q, EbBufferHeaderType *o) { (void)e; (void)q; g_show_encoded++; o->flags |= (EB_BUFFERFLAG_SHOW_EXT | EB_BUFFERFLAG_HAS_TD); }
EbObjectWrapper *stub_pop_undisplayed(EncodeContext *e) { (void)e; return g_existed; }
void stub_release_frames(EncodeContext *e, int frames) { (void)e; g_released++; g_released_frames = frames; }

#ifdef U03_HEADER
void h_header(void) {
    PictureControlSet *pcs = malloc(sizeof(*pcs)); PictureParentControlSet *pp = malloc(sizeof(*pp));
    SequenceControlSet *scs = malloc(sizeof(*scs)); EncodeContext *ec = malloc(sizeof(*ec));
    EbBufferHeaderType *out = malloc(sizeof(*out)), *in = malloc(sizeof(*in));
    __CPROVER_assume(pcs && pp && scs && ec && out && in);
    pcs->parent_pcs_ptr = pp; pp->input_ptr = in;
    __CPROVER_assume(pp->is_used_as_reference_flag <= 1 && pp->idr_flag <= 1 && ec->terminating_sequence_flag_received <= 1);
    verif_c03_header(pcs, scs, ec, out);
    int last = ec->terminating_sequence_flag_received == EB_TRUE && pp->decode_order == ec->terminating_picture_number;
    V_ASSERT(out->pts == in->pts && out->dts == in->pts, "packet pts = pts of the submitted picture, dts == pts");
    V_ASSERT(out->p_app_private == in->p_app_private, "packet carries the submitted picture's application-private pointer");
    V_ASSERT(out->flags == (last ? EB_BUFFERFLAG_EOS : 0u), "EOS flag exactly on the terminating picture; no other flag");
    V_ASSERT(out->n_filled_len == 0, "packet starts empty");
    V_ASSERT(out->pic_type == (pp->is_used_as_reference_flag ? (pp->idr_flag ? EB_AV1_KEY_PICTURE : pcs->slice_type) : EB_AV1_NON_REF_PICTURE), "reported picture type: KEY iff reference and IDR, else the slice type, else non-reference");
    V_ASSERT(scs->static_config.stat_report ? (out->luma_sse == pp->luma_sse && out->cb_sse == pp->cb_sse && out->cr_sse == pp->cr_sse)
                                            : (out->luma_sse == 0 && out->cb_sse == 0 && out->cr_sse == 0), "SSE values handed to the packet iff statistics reporting is on (each plane to its own field)");
    V_CANARY("header block returns");
}
#endif
#ifdef U03_DRAIN
void h_drain(void) {
    PacketizationContext *ctx = malloc(sizeof(*ctx)); EncodeContext *ec = malloc(sizeof(*ec));
    PacketizationReorderEntry *q = malloc(sizeof(*q)); EbObjectWrapper *tuw = malloc(sizeof(*tuw)), *exw = malloc(sizeof(*exw));
    EbBufferHeaderType *tub = malloc(sizeof(*tub)), *exb = malloc(sizeof(*exb));
    __CPROVER_assume(ctx && ec && q && tuw && exw && tub && exb);
    tuw->object_ptr = tub; exw->object_ptr = exb; q->output_stream_wrapper_ptr = tuw;
    ec->packetization_reorder_queue = malloc(sizeof(void *) * PACKETIZATION_REORDER_QUEUE_MAX_DEPTH);
    __CPROVER_assume(ec->packetization_reorder_queue != NULL);
    V_NONDET(uint32_t, frames);
    V_ASSUME(frames >= 1 && frames <= 8 && ec->packetization_reorder_queue_head_index < PACKETIZATION_REORDER_QUEUE_MAX_DEPTH);
    ec->packetization_reorder_queue[(ec->packetization_reorder_queue_head_index + frames - 1) % PACKETIZATION_REORDER_QUEUE_MAX_DEPTH] = q;
    __CPROVER_assume(q->has_show_existing <= 1);
    /* state invariant of the slice: the unit's buffer carries only the EOS flag (U03.1), a popped undisplayed
     * buffer carries no EOS yet; a unit with has_show_existing has an undisplayed frame to show */
    __CPROVER_assume((tub->flags & ~EB_BUFFERFLAG_EOS) == 0 && (exb->flags & EB_BUFFERFLAG_EOS) == 0);
    g_existed = exw;
    int eos0 = (tub->flags & EB_BUFFERFLAG_EOS) != 0, se = q->has_show_existing != 0;
    verif_c03_drain(ctx, ec, frames, 0);
    V_ASSERT(g_tu_encoded == 1 && g_released == 1 && g_released_frames == (int)frames, "one temporal unit assembled, its frames released once");
    V_ASSERT(g_nposts == (se ? 2u : 1u) && g_posted[0] == tuw && (!se || g_posted[1] == exw), "one packet for the unit, then exactly one for a show-existing frame, in that order");
    unsigned eos_count = ((g_posted_flags[0] & EB_BUFFERFLAG_EOS) != 0) + (se ? ((g_posted_flags[1] & EB_BUFFERFLAG_EOS) != 0) : 0);
    V_ASSERT(eos_count == (eos0 ? 1u : 0u), "EOS is carried by exactly one posted packet iff the unit was the terminating one");
    V_ASSERT(!eos0 || (g_posted_flags[se ? 1 : 0] & EB_BUFFERFLAG_EOS), "and it is the LAST packet posted (no packet follows EOS)");
    V_CANARY("drain step returns");
}
#endif
#ifdef U03_PTS
void h_pts(void) {
    EbObjectWrapper wa, wb; EbBufferHeaderType ba, bb;
    wa.object_ptr = &ba; wb.object_ptr = &bb;
    EbObjectWrapper *pa = &wa, *pb = &wb;
    /* application timestamps are arbitrary signed 64-bit values; two queued pictures are less than 2^31 apart */
    __CPROVER_assume((__int128)bb.pts - (__int128)ba.pts > -((__int128)1 << 31) && (__int128)bb.pts - (__int128)ba.pts < ((__int128)1 << 31));
    int r = pts_descend(&pa, &pb);
    V_ASSERT((r < 0) == (bb.pts < ba.pts) && (r > 0) == (bb.pts > ba.pts) && (r == 0) == (bb.pts == ba.pts), "comparator orders by DESCENDING signed pts (for qsort of the undisplayed frames)");
    V_CANARY("comparator returns");
}
#endif

/* C03 (packet-forming code only) — mechanical block slices of packetization_kernel + the pts comparator.
 * What a slice drops: everything of the kernel outside the statement range (see DESIGN §4). */
#include "vh.h"
#include <stdlib.h>
#include "EbDefinitions.h"
#include "EbSystemResourceManager.h"
void svt_log(int level, const char *tag, const char *fmt, ...) { (void)level; (void)tag; (void)fmt; }
/* ---- logging stubs for the drain-loop slice ---- */
#define MAXPOST 4
EbObjectWrapper *g_posted[MAXPOST]; uint32_t g_posted_flags[MAXPOST]; unsigned g_nposts;
EbErrorType stub_post_full_object(EbObjectWrapper *w) {
    __CPROVER_assert(w != NULL, "post: wrapper not NULL");
    if (g_nposts < MAXPOST) { g_posted[g_nposts] = w; g_posted_flags[g_nposts] = ((EbBufferHeaderType *)w->object_ptr)->flags; }
    g_nposts++;
    return EB_ErrorNone;
}
unsigned g_released; int g_released_frames; unsigned g_tu_encoded, g_show_encoded;
#ifdef SCRATCH_EbPacketizationProcess_c
#include SCRATCH_EbPacketizationProcess_c
#else
#include "Source/Lib/Encoder/Codec/EbPacketizationProcess.c"
#endif
EbObjectWrapper *g_existed;
void stub_collect(PacketizationContext *c, const EncodeContext *e, int frames) { (void)c; (void)e; (void)frames; }
EbErrorType stub_encode_tu(EncodeContext *e, int frames, uint32_t total, EbBufferHeaderType *o) { (void)e; (void)frames; (void)total; g_tu_encoded++; o->flags |= EB_BUFFERFLAG_HAS_TD; return EB_ErrorNone; }
void stub_encode_show_existing(EncodeContext *e, PacketizationReorderEntry *q, EbBufferHeaderType *o) { (void)e; (void)q; g_show_encoded++; o->flags |= (EB_BUFFERFLAG_SHOW_EXT | EB_BUFFERFLAG_HAS_TD); }
EbObjectWrapper *stub_pop_undisplayed(EncodeContext *e) { (void)e; return g_existed; }
void stub_release_frames(EncodeContext *e, int frames) { (void)e; g_released++; g_released_frames = frames; }

#ifdef U03_HEADER
void h_header(void) {
    PictureControlSet *pcs = malloc(sizeof(*pcs)); PictureParentControlSet *pp = malloc(sizeof(*pp));
    SequenceControlSet *scs = malloc(sizeof(*scs)); EncodeContext *ec = malloc(sizeof(*ec));
    EbBufferHeaderType *out = malloc(sizeof(*out)), *in = malloc(sizeof(*in));
    __CPROVER_assume(pcs && pp && scs && ec && out && in);
    pcs->parent_pcs_ptr = pp; pp->input_ptr = in;
    __CPROVER_assume(pp->is_used_as_reference_flag <= 1 && pp->idr_flag <= 1 && ec->terminating_sequence_flag_received <= 1);
    verif_c03_header(pcs, scs, ec, out);
    int last = ec->terminating_sequence_flag_received == EB_TRUE && pp->decode_order == ec->terminating_picture_number;
    V_ASSERT(out->pts == in->pts && out->dts == in->pts, "packet pts = pts of the submitted picture, dts == pts");
    V_ASSERT(out->p_app_private == in->p_app_private, "packet carries the submitted picture's application-private pointer");
    V_ASSERT(out->flags == (last ? EB_BUFFERFLAG_EOS : 0u), "EOS flag exactly on the terminating picture; no other flag");
    V_ASSERT(out->n_filled_len == 0, "packet starts empty");
    V_ASSERT(out->pic_type == (pp->is_used_as_reference_flag ? (pp->idr_flag ? EB_AV1_KEY_PICTURE : pcs->slice_type) : EB_AV1_NON_REF_PICTURE), "reported picture type: KEY iff reference and IDR, else the slice type, else non-reference");
    V_ASSERT(scs->static_config.stat_report ? (out->luma_sse == pp->luma_sse && out->cb_sse == pp->cb_sse && out->cr_sse == pp->cr_sse)
                                            : (out->luma_sse == 0 && out->cb_sse == 0 && out->cr_sse == 0), "SSE values handed to the packet iff statistics reporting is on (each plane to its own field)");
    V_CANARY("header block returns");
}
#endif
#ifdef U03_DRAIN
void h_drain(void) {
    PacketizationContext *ctx = malloc(sizeof(*ctx)); EncodeContext *ec = malloc(sizeof(*ec));
    PacketizationReorderEntry *q = malloc(sizeof(*q)); EbObjectWrapper *tuw = malloc(sizeof(*tuw)), *exw = malloc(sizeof(*exw));
    EbBufferHeaderType *tub = malloc(sizeof(*tub)), *exb = malloc(sizeof(*exb));
    __CPROVER_assume(ctx && ec && q && tuw && exw && tub && exb);
    tuw->object_ptr = tub; exw->object_ptr = exb; q->output_stream_wrapper_ptr = tuw;
    ec->packetization_reorder_queue = malloc(sizeof(void *) * PACKETIZATION_REORDER_QUEUE_MAX_DEPTH);
    __CPROVER_assume(ec->packetization_reorder_queue != NULL);
    V_NONDET(uint32_t, frames);
    V_ASSUME(frames >= 1 && frames <= 8 && ec->packetization_reorder_queue_head_index < PACKETIZATION_REORDER_QUEUE_MAX_DEPTH);
    ec->packetization_reorder_queue[(ec->packetization_reorder_queue_head_index + frames - 1) % PACKETIZATION_REORDER_QUEUE_MAX_DEPTH] = q;
    __CPROVER_assume(q->has_show_existing <= 1);
    /* state invariant of the slice: the unit's buffer carries only the EOS flag (U03.1), a popped undisplayed
     * buffer carries no EOS yet; a unit with has_show_existing has an undisplayed frame to show */
    __CPROVER_assume((tub->flags & ~EB_BUFFERFLAG_EOS) == 0 && (exb->flags & EB_BUFFERFLAG_EOS) == 0);
    g_existed = exw;
    int eos0 = (tub->flags & EB_BUFFERFLAG_EOS) != 0, se = q->has_show_existing != 0;
    verif_c03_drain(ctx, ec, frames, 0);
    V_ASSERT(g_tu_encoded == 1 && g_released == 1 && g_released_frames == (int)frames, "one temporal unit assembled, its frames released once");
    V_ASSERT(g_nposts == (se ? 2u : 1u) && g_posted[0] == tuw && (!se || g_posted[1] == exw), "one packet for the unit, then exactly one for a show-existing frame, in that order");
    unsigned eos_count = ((g_posted_flags[0] & EB_BUFFERFLAG_EOS) != 0) + (se ? ((g_posted_flags[1] & EB_BUFFERFLAG_EOS) != 0) : 0);
    V_ASSERT(eos_count == (eos0 ? 1u : 0u), "EOS is carried by exactly one posted packet iff the unit was the terminating one");
    V_ASSERT(!eos0 || (g_posted_flags[se ? 1 : 0] & EB_BUFFERFLAG_EOS), "and it is the LAST packet posted (no packet follows EOS)");
    V_CANARY("drain step returns");
}
#endif
#ifdef U03_PTS
void h_pts(void) {
    EbObjectWrapper wa, wb; EbBufferHeaderType ba, bb;
    wa.object_ptr = &ba; wb.object_ptr = &bb;
    EbObjectWrapper *pa = &wa, *pb = &wb;
    /* application timestamps are arbitrary signed 64-bit values; two queued pictures are less than 2^31 apart */
    __CPROVER_assume((__int128)bb.pts - (__int128)ba.pts > -((__int128)1 << 31) && (__int128)bb.pts - (__int128)ba.pts < ((__int128)1 << 31));
    int r = pts_descend(&pa, &pb);
    V_ASSERT((r < 0) == (bb.pts < ba.pts) && (r > 0) == (bb.pts > ba.pts) && (r == 0) == (bb.pts == ba.pts), "comparator orders by DESCENDING signed pts (for qsort of the undisplayed frames)");
    V_CANARY("comparator returns");
}
#endif

#ifdef U02_SHOWEX
/* C02 — staging of the show-existing frame header of a picture that re-shows a stored frame (block slice of
 * packetization_kernel).  The queue entry's private bitstream is REUSED every 2048 pictures, so the staged bytes are
 * those of THIS picture only if the buffer is reset before anything is written to it: otherwise the packet would
 * carry a stale header and the temporal unit two displayed frames.  Ordered call log of the real block:
 *   [grow if the next entry carries metadata] -> reset(entry bitstream) -> metadata OBU -> frame header with
 *   show_existing = 1 -> metadata of the next entry released. */
#define EV_REALLOC 1
#define EV_RESET 2
#define EV_META 3
#define EV_FH 4
#define EV_FREE 5
int g_ev[8]; unsigned g_nev; Bitstream *g_bs; int g_ok = 1; uint8_t g_fh_show_existing;
static void ev(int e) { if (g_nev < 8) g_ev[g_nev] = e; g_nev++; }
EbErrorType stub_realloc_bs(Bitstream *b, uint32_t sz) { (void)sz; if (b != g_bs) g_ok = 0; ev(EV_REALLOC); return EB_ErrorNone; }
void stub_bs_reset(Bitstream *b) { if (b != g_bs) g_ok = 0; ev(EV_RESET); }
EbErrorType stub_write_metadata(Bitstream *b, SvtMetadataArrayT *m, const EbAv1MetadataType t) { (void)m; (void)t; if (b != g_bs) g_ok = 0; ev(EV_META); return EB_ErrorNone; }
EbErrorType stub_write_fh(Bitstream *b, SequenceControlSet *s, PictureControlSet *p, uint8_t show_existing) { (void)s; (void)p; if (b != g_bs) g_ok = 0; g_fh_show_existing = show_existing; ev(EV_FH); return EB_ErrorNone; }
void stub_md_free(void *arr) { (void)arr; ev(EV_FREE); }
size_t stub_md_size(SvtMetadataArrayT *m, const EbAv1MetadataType t) { (void)m; (void)t; size_t n; __CPROVER_assume(n < 4096); return n; }
void h_showex(void) {
    PictureControlSet *pcs = malloc(sizeof(*pcs)); PictureParentControlSet *pp = malloc(sizeof(*pp));
    SequenceControlSet *scs = malloc(sizeof(*scs)); EncodeContext *ec = malloc(sizeof(*ec));
    PacketizationReorderEntry *qe = malloc(sizeof(*qe)), *next = malloc(sizeof(*next));
    PacketizationReorderEntry **queue = malloc(sizeof(*queue) * PACKETIZATION_REORDER_QUEUE_MAX_DEPTH);
    Bitstream *bs = malloc(sizeof(*bs));
    __CPROVER_assume(pcs && pp && scs && ec && qe && next && queue && bs);
    pcs->parent_pcs_ptr = pp; ec->packetization_reorder_queue = queue; qe->bitstream_ptr = bs; g_bs = bs;
    /* picture numbers whose successor falls at the start / middle / last slot of the 2048-entry queue */
    { unsigned sel; pcs->picture_number = sel == 0 ? 0 : sel == 1 ? 2046 : sel == 2 ? 2047 : sel == 3 ? 4095 : 1000000; }
    queue[(pcs->picture_number + 1) % PACKETIZATION_REORDER_QUEUE_MAX_DEPTH] = next;
    { _Bool has_md; SvtMetadataArrayT *md = malloc(sizeof(*md)); __CPROVER_assume(md); next->metadata = has_md ? md : NULL; }
    int had_md = next->metadata != NULL;
    EbBool show_ex = pp->has_show_existing;
    verif_c02_showex(pcs, scs, ec, qe);
    if (!show_ex) { V_ASSERT(g_nev == 0, "no staging for a picture that does not re-show a stored frame"); V_CANARY("not a show-existing picture"); return; }
    V_ASSERT(g_ok, "every staging call targets the queue entry's own bitstream");
    unsigned k = 0;
    if (had_md) { V_ASSERT(g_ev[0] == EV_REALLOC, "metadata present: the buffer is grown first"); k = 1; }
    V_ASSERT(g_nev == k + 4 && g_ev[k] == EV_RESET && g_ev[k + 1] == EV_META && g_ev[k + 2] == EV_FH && g_ev[k + 3] == EV_FREE,
             "the entry's bitstream is reset exactly once BEFORE the metadata OBU and the show-existing frame header are written, whether or not metadata is present");
    V_ASSERT(g_fh_show_existing == 1, "the staged header is a show_existing_frame header");
    V_CANARY("show-existing picture staged");
}
#endif

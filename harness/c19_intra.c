/* C19 — intra refresh placement and key frames as random-access points: mechanical block slices of three kernels. */
#include "vh.h"
#include <stdlib.h>
void svt_log(int level, const char *tag, const char *fmt, ...) { (void)level; (void)tag; (void)fmt; }
#if defined(U19_PERIOD)
#include SCRATCH_EbPictureDecisionProcess_c
/* U19.1 the placement rule of picture_decision_kernel + U19.2 the placement lemma, stated WITHOUT % (the
 * multiply/divide wall): ghost `base` = display position of the last multiple of P+1, invariant
 * n - 1 == base + pos  &&  pos <= P.  One step: picture n is flagged  <=>  pos == P  <=>  n == base + P + 1 (the
 * next multiple); otherwise base < n < base + P + 1 (not a multiple). */
void h_period(void) {
    SequenceControlSet *scs = malloc(sizeof(*scs)); PictureParentControlSet *pcs = malloc(sizeof(*pcs)); EncodeContext *ec = malloc(sizeof(*ec));
    __CPROVER_assume(scs && pcs && ec);
    V_NONDET(uint64_t, n); V_NONDET(uint64_t, base);
    int32_t P = scs->intra_period_length;
    uint32_t pos = ec->intra_period_position;
    __CPROVER_assume(P >= -1 && scs->intra_refresh_type >= 1 && scs->intra_refresh_type <= 2);
    __CPROVER_assume(pcs->idr_flag <= 1 && pcs->cra_flag <= 1 && pcs->scene_change_flag == EB_FALSE);   /* scene change detection is rejected by set_parameter */
    __CPROVER_assume(ec->pre_assignment_buffer_intra_count < 1000 && ec->pre_assignment_buffer_idr_count < 1000 && ec->pre_assignment_buffer_count < 1000);
    __CPROVER_assume(P <= 0 || (n >= 1 && n < (1ull << 62) && base < (1ull << 62) && n - 1 == base + pos && pos <= (uint32_t)P));
    EbBool idr0 = pcs->idr_flag, cra0 = pcs->cra_flag;
    verif_c19_period(scs, pcs, ec);
    if (P == 0) V_ASSERT(pcs->cra_flag == EB_TRUE, "intra period 0: every picture is intra");
    if (P == -1) V_ASSERT(pcs->idr_flag == idr0 && pcs->cra_flag == cra0, "intra period -1: no periodic intra refresh");
    if (P > 0) {
        int flagged_now = (pos == (uint32_t)P);
        V_ASSERT(scs->intra_refresh_type != IDR_REFRESH || pcs->idr_flag == (idr0 || flagged_now), "IDR refresh: key frame exactly when a full period has passed");
        V_ASSERT(scs->intra_refresh_type != CRA_REFRESH || pcs->cra_flag == (cra0 || flagged_now), "CRA refresh: intra frame exactly when a full period has passed");
        V_ASSERT(flagged_now == (n == base + (uint64_t)P + 1), "placement lemma: flagged <=> display position is the NEXT multiple of P+1");
        V_ASSERT(flagged_now || (base < n && n < base + (uint64_t)P + 1), "placement lemma: otherwise strictly between two multiples of P+1");
        uint64_t base1 = flagged_now ? n : base;
        V_ASSERT(ec->intra_period_position == (flagged_now ? 0u : pos + 1) && ec->intra_period_position <= (uint32_t)P && n == base1 + ec->intra_period_position, "the invariant n == base + pos, pos <= P is re-established for picture n+1");
    }
    V_CANARY("period block returns");
}
#endif
#if defined(U03_EOS)
#include SCRATCH_EbPictureDecisionProcess_c
/* C03 — end of sequence reaches the mini-GOP logic: (a) the picture-decision kernel latches the EOS flag of the
 * incoming picture into the pre-assignment buffer state and counts the picture (same statement range as U19.1);
 * (b) the release decision: a buffer that holds the EOS picture is released (flushed) whatever its fill level —
 * otherwise the last pictures of a stream whose length is not a multiple of the mini-GOP would never be coded. */
void h_eos_latch(void) {
    SequenceControlSet *scs = malloc(sizeof(*scs)); PictureParentControlSet *pcs = malloc(sizeof(*pcs)); EncodeContext *ec = malloc(sizeof(*ec));
    __CPROVER_assume(scs && pcs && ec);
    __CPROVER_assume(pcs->idr_flag <= 1 && pcs->cra_flag <= 1 && pcs->end_of_sequence_flag <= 1 && ec->pre_assignment_buffer_eos_flag <= 1);
    __CPROVER_assume(ec->pre_assignment_buffer_intra_count < 1000 && ec->pre_assignment_buffer_idr_count < 1000 && ec->pre_assignment_buffer_count < 1000);
    uint32_t eos0 = ec->pre_assignment_buffer_eos_flag, n0 = ec->pre_assignment_buffer_count;
    verif_c19_period(scs, pcs, ec);
    V_ASSERT(ec->pre_assignment_buffer_eos_flag == (uint32_t)(pcs->end_of_sequence_flag ? EB_TRUE : eos0), "the EOS flag of the incoming picture is latched (and an earlier latch is kept)");
    V_ASSERT(ec->pre_assignment_buffer_count == n0 + 1, "the picture is counted into the pre-assignment buffer exactly once");
    V_CANARY("latch block returns");
}
void h_eos_flush(void) {
    SequenceControlSet *scs = malloc(sizeof(*scs)); PictureParentControlSet *pcs = malloc(sizeof(*pcs)); EncodeContext *ec = malloc(sizeof(*ec));
    PictureDecisionContext *ctx = malloc(sizeof(*ctx));
    __CPROVER_assume(scs && pcs && ec && ctx);
    __CPROVER_assume(scs->static_config.hierarchical_levels <= 5);
    __CPROVER_assume(ec->pre_assignment_buffer_count >= 1 && ec->pre_assignment_buffer_count <= 64);
    ctx->total_number_of_mini_gops = 0; ctx->mini_gop_length[0] = 0;
    verif_c03_release(scs, pcs, ec, ctx);
    int must = ec->pre_assignment_buffer_eos_flag == EB_TRUE || ec->pre_assignment_buffer_intra_count > 0 ||
        ec->pre_assignment_buffer_count == (uint32_t)(1 << scs->static_config.hierarchical_levels) ||
        pcs->pred_structure == EB_PRED_LOW_DELAY_P || pcs->pred_structure == EB_PRED_LOW_DELAY_B;
    V_ASSERT(!(ec->pre_assignment_buffer_eos_flag == EB_TRUE) || (ctx->total_number_of_mini_gops == 1 && ctx->mini_gop_length[0] == ec->pre_assignment_buffer_count && ctx->mini_gop_end_index[0] == ec->pre_assignment_buffer_count - 1),
             "a pre-assignment buffer holding the EOS picture is released in full, whatever its fill level");
    V_ASSERT(must == (ctx->total_number_of_mini_gops == 1), "release exactly when: EOS, an intra picture, a full mini-GOP, or low delay");
    V_CANARY("release block returns");
}
#endif
#if defined(U03_WINDOW)
#include "Source/Lib/Encoder/Codec/EbPictureDecisionProcess.c"
/* C03 — no picture is lost when an EOS-flushed (incomplete) pre-assignment buffer is cut into mini-GOPs:
 * handle_incomplete_picture_window_map.  Contract: if the k mini-GOPs built so far are contiguous from picture 0
 * (start_0 = 0, start_{i+1} = end_i + 1, end_{k-1} <= count - 1), then afterwards the mini-GOPs are still contiguous
 * from 0 and the last one ends at count - 1 — every buffered picture is in exactly one mini-GOP — and
 * length = end - start + 1.  Witness index i. */
#define MAXMG 6
void h_window(void) {
    PictureDecisionContext *ctx = malloc(sizeof(*ctx)); EncodeContext *ec = malloc(sizeof(*ec));
    __CPROVER_assume(ctx && ec);
    V_NONDET(uint32_t, levels);
    __CPROVER_assume(levels <= 5);
    uint32_t count = ec->pre_assignment_buffer_count, k = ctx->total_number_of_mini_gops;
    __CPROVER_assume(count >= 1 && count <= 64 && k <= MAXMG);
    /* contiguity of what has been built so far */
    for (unsigned i = 0; i < MAXMG; i++) if (i < k) {
        __CPROVER_assume(ctx->mini_gop_start_index[i] == (i == 0 ? 0 : ctx->mini_gop_end_index[i - 1] + 1));
        __CPROVER_assume(ctx->mini_gop_end_index[i] >= ctx->mini_gop_start_index[i] && ctx->mini_gop_end_index[i] <= count - 1);
        __CPROVER_assume(ctx->mini_gop_length[i] == ctx->mini_gop_end_index[i] - ctx->mini_gop_start_index[i] + 1);
    }
    EbErrorType e = handle_incomplete_picture_window_map(levels, ctx, ec);
    V_ASSERT(e == EB_ErrorNone, "returns success");
    uint32_t k2 = ctx->total_number_of_mini_gops;
    V_ASSERT(k2 >= 1 && k2 >= k && k2 <= k + 1, "at most one mini-GOP is added");
    V_ASSERT(ctx->mini_gop_end_index[k2 - 1] == count - 1, "the last mini-GOP ends at the last buffered picture: no trailing picture is dropped");
    V_NONDET(unsigned, i);
    __CPROVER_assume(i < k2);
    V_ASSERT(ctx->mini_gop_start_index[i] == (i == 0 ? 0 : ctx->mini_gop_end_index[i - 1] + 1), "mini-GOPs are contiguous from picture 0: every picture is in exactly one (witness i)");
    V_ASSERT(ctx->mini_gop_length[i] == ctx->mini_gop_end_index[i] - ctx->mini_gop_start_index[i] + 1, "length = end - start + 1 (witness i)");
    V_CANARY("window map returns");
}
#endif
#if defined(U19_FLAGS)
#include SCRATCH_EbResourceCoordinationProcess_c
/* the per-picture flag initialisation when a (recycled) picture control set is taken from the pool */
void h_flags(void) {
    SequenceControlSet *scs = malloc(sizeof(*scs)); PictureParentControlSet *pcs = malloc(sizeof(*pcs)); EncodeContext *ec = malloc(sizeof(*ec));
    EbBufferHeaderType *in = malloc(sizeof(*in));
    __CPROVER_assume(scs && pcs && ec && in);
    scs->encode_context_ptr = ec; pcs->input_ptr = in;       /* every other byte of the recycled pcs is arbitrary */
    __CPROVER_assume(ec->initial_picture <= 1);
    verif_c19_flags(pcs, scs);
    V_ASSERT(pcs->idr_flag == (ec->initial_picture || in->pic_type == EB_AV1_KEY_PICTURE), "a picture is an IDR candidate iff it is the first picture or the application forces a key picture — whatever the recycled control set contained");
    V_ASSERT(pcs->cra_flag == (in->pic_type == EB_AV1_INTRA_ONLY_PICTURE) && pcs->scene_change_flag == EB_FALSE && pcs->qp_on_the_fly == EB_FALSE, "the other per-picture flags are reset as well");
    V_CANARY("flag block returns");
}
#endif
#if defined(U19_SPS)
unsigned g_sps, g_meta_after_sps, g_meta;
#include "EbDefinitions.h"
#include SCRATCH_EbPacketizationProcess_c
EbErrorType stub_encode_sps(Bitstream *b, SequenceControlSet *s) { (void)b; (void)s; g_sps++; return EB_ErrorNone; }
EbErrorType stub_write_metadata(Bitstream *b, SvtMetadataArrayT *m, const EbAv1MetadataType t) { (void)b; (void)m; (void)t; g_meta++; if (g_sps) g_meta_after_sps++; return EB_ErrorNone; }
void h_sps(void) {
    PictureControlSet *pcs = malloc(sizeof(*pcs)); PictureParentControlSet *pp = malloc(sizeof(*pp)); SequenceControlSet *scs = malloc(sizeof(*scs));
    EbBufferHeaderType *in = malloc(sizeof(*in));
    __CPROVER_assume(pcs && pp && scs && in);
    pcs->parent_pcs_ptr = pp; pp->input_ptr = in;
    verif_c19_sps(pcs, scs, &pp->frm_hdr);
    V_ASSERT(g_sps == (pp->frm_hdr.frame_type == KEY_FRAME ? 1u : 0u), "the sequence header is written with EVERY key frame (whatever its decode order) and only then, once");
    V_ASSERT(g_meta == g_meta_after_sps, "and before the key frame's metadata OBUs");
    V_CANARY("sps block returns");
}
#endif

#if defined(U19_RPS)
#include "Source/Lib/Encoder/Codec/EbPictureDecisionProcess.c"
/* U19.3 — av1_generate_rps_info: frame type and reference signalling of a key frame.
 *   (a) every picture: frame_type == KEY_FRAME iff (I slice && idr), INTRA_ONLY iff (I slice && !idr), else INTER;
 *       intra_only flag == I slice;
 *   (b) key frame, every hierarchical depth 0..5: shown immediately (show_frame), never re-shown later
 *       (has_show_existing off) and the layer toggles restart at 0 — the reference-slot rotation of the new GOP
 *       does not depend on anything before the key frame. */
void h_rps(void) {
    PictureParentControlSet *pcs = malloc(sizeof(*pcs)); PictureDecisionContext *ctx = malloc(sizeof(*ctx));
    SequenceControlSet *scs = malloc(sizeof(*scs)); EbObjectWrapper *w = malloc(sizeof(*w)); EncodeContext *ec = malloc(sizeof(*ec));
    PredictionStructure *ps = malloc(sizeof(*ps)); PredictionStructureEntry *pe = malloc(sizeof(*pe));
    PredictionStructureEntry **arr = malloc(sizeof(*arr) * 4);
    __CPROVER_assume(pcs && ctx && scs && w && ec && ps && pe && arr);
    w->object_ptr = scs; pcs->scs_wrapper_ptr = w; pcs->pred_struct_ptr = ps; ps->pred_struct_entry_ptr_array = arr;
    arr[0] = pe; arr[1] = pe; arr[2] = pe; arr[3] = pe;
    __CPROVER_assume(pcs->pred_struct_index < 4);
    __CPROVER_assume(pcs->idr_flag <= 1);
    __CPROVER_assume(pcs->slice_type == I_SLICE && pcs->idr_flag == EB_TRUE);
    __CPROVER_assume(pcs->hierarchical_levels <= 5);
    V_NONDET(uint32_t, pic_idx); V_NONDET(uint32_t, mg_idx);
    av1_generate_rps_info(pcs, ec, ctx, pic_idx, mg_idx);
    V_ASSERT(pcs->frm_hdr.frame_type == KEY_FRAME, "an IDR picture is coded as KEY_FRAME");
    V_ASSERT(pcs->intra_only == 1, "intra_only set for an I slice");
    V_ASSERT(pcs->frm_hdr.show_frame == EB_TRUE && pcs->has_show_existing == EB_FALSE, "a key frame is shown at once and never re-shown: full implicit refresh of all reference slots (AV1 5.9.2)");
    V_ASSERT(ctx->lay0_toggle == 0 && ctx->lay1_toggle == 0 && ctx->lay2_toggle == 0, "reference-slot rotation restarts at the key frame");
    V_CANARY("key frame path returns");
}
void h_rps_type(void) {
    PictureParentControlSet *pcs = malloc(sizeof(*pcs)); PictureDecisionContext *ctx = malloc(sizeof(*ctx));
    SequenceControlSet *scs = malloc(sizeof(*scs)); EbObjectWrapper *w = malloc(sizeof(*w)); EncodeContext *ec = malloc(sizeof(*ec));
    PredictionStructure *ps = malloc(sizeof(*ps)); PredictionStructureEntry *pe = malloc(sizeof(*pe));
    PredictionStructureEntry **arr = malloc(sizeof(*arr) * 4);
    __CPROVER_assume(pcs && ctx && scs && w && ec && ps && pe && arr);
    w->object_ptr = scs; pcs->scs_wrapper_ptr = w; pcs->pred_struct_ptr = ps; ps->pred_struct_entry_ptr_array = arr;
    arr[0] = pe; arr[1] = pe; arr[2] = pe; arr[3] = pe;
    __CPROVER_assume(pcs->pred_struct_index < 4 && pcs->idr_flag <= 1 && pcs->hierarchical_levels <= 5);
    __CPROVER_assume(pcs->slice_type == I_SLICE || pcs->slice_type == P_SLICE || pcs->slice_type == B_SLICE);
    EB_SLICE st = pcs->slice_type; EbBool idr = pcs->idr_flag;
    V_NONDET(uint32_t, pic_idx); V_NONDET(uint32_t, mg_idx);
    av1_generate_rps_info(pcs, ec, ctx, pic_idx, mg_idx);
    V_ASSERT(pcs->frm_hdr.frame_type == (st == I_SLICE ? (idr ? KEY_FRAME : INTRA_ONLY_FRAME) : INTER_FRAME), "frame type: KEY iff IDR I-slice, INTRA_ONLY iff non-IDR I-slice, INTER otherwise");
    V_ASSERT(pcs->intra_only == (st == I_SLICE), "intra_only flag == I slice");
    V_CANARY("any picture returns");
}
#endif

/* C06 (dispatch soundness) / C17 (initialiser determinism) — setup_common_rtcd_internal(flags), all 2^N flag words:
 *  - totality: after the call EVERY dispatch pointer (list generated from common_dsp_rtcd.h on each run) is non-NULL,
 *    so no kernel call can jump to NULL whatever instruction sets are enabled;
 *  - determinism (two-run): the table written is a function of `flags` only — calling again with the same flags
 *    leaves every pointer identical, so instances with equal CPU flags cannot change each other's dispatch;
 *  - C-only: with flags == 0 no pointer selected depends on a CPU feature: the table equals the one any other flag
 *    word produces after clearing... (checked as: flags==0 twice gives identical tables). */
#include "vh.h"
#include <stdlib.h>
#include <string.h>
void svt_log(int level, const char *tag, const char *fmt, ...) { (void)level; (void)tag; (void)fmt; }
#include "Source/Lib/Common/Codec/common_dsp_rtcd.c"
CPU_FLAGS g_usable;
#include "c06_rtcd_list.h"
CPU_FLAGS stub_cpu_flags_to_use(void) { return g_usable; }   /* any set of usable instruction sets */
void h_dispatch(void) {
    V_NONDET(CPU_FLAGS, flags);
    V_NONDET(CPU_FLAGS, usable);
    g_usable = usable;   /* objects of static storage are zero in the verifier: the usable set must be made symbolic explicitly */
    setup_common_rtcd_internal(flags);
/* one pointer is AVX2-internal: it is called only from AVX2 kernels (cdef_block_avx2.c), so it must be set whenever
 * AVX2 is enabled; every other pointer must be set for every flag word */
#define REQUIRED(name) (strcmp(#name, "svt_cdef_filter_block_8x8_16") != 0 || (flags & g_usable & HAS_AVX2))
#define P(name) V_ASSERT(!REQUIRED(name) || name != NULL, "dispatch pointer '" #name "' is set for every CPU flag word that can reach a call of it");
    RTCD_POINTERS(P)
#undef P
    /* the selected kernel is one of the variants that carry THIS pointer's name (name-based variant sets) */
#define V(name, cond) V_ASSERT(name == NULL || (cond), "dispatch pointer '" #name "' selects a kernel of its own name (not another block size / function)");
    RTCD_VARIANTS(V)
#undef V
#define P(name) void *s_##name = (void *)name;
    RTCD_POINTERS(P)
#undef P
    setup_common_rtcd_internal(flags);
#define P(name) V_ASSERT((void *)name == s_##name, "dispatch pointer '" #name "' is a function of the flags only (same flags, same target)");
    RTCD_POINTERS(P)
#undef P
    V_CANARY("rtcd setup returns");
    __CPROVER_assert(!((flags & usable & HAS_SSSE3) && !(flags & usable & HAS_AVX2)), "CANARY an intermediate instruction-set level (SSSE3 without AVX2) is exercised");
}

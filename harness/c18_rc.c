/* C18 — "every coded frame's base quantizer index lies between the indices of the configured minimum and maximum
 * QP; with fixed-QP coding and no scaling every frame uses the quantizer index of the configured QP (plus
 * configured fixed offsets, clipped to those bounds)".
 * U18.4: mechanical block slice of rate_control_kernel — the statement range that assigns base_q_idx for the
 * picture (from `if (rate_control_mode == 0) {` to the final `parent->picture_qp = picture_qp;`), both textual
 * occurrences, verified as a state transformer from an ARBITRARY state of its free variables.  The rate-control
 * maths it calls (floating point, hundreds of lines) is replaced by havoc stubs: they may choose ANY qindex / QP. */
#include "vh.h"
#include <stdlib.h>
void svt_log(int level, const char *tag, const char *fmt, ...) { (void)level; (void)tag; (void)fmt; }
#ifdef SCRATCH_EbRateControlProcess_c
#include SCRATCH_EbRateControlProcess_c
#else
#include "Source/Lib/Encoder/Codec/EbRateControlProcess.c"
#endif
int nondet_int(void); unsigned char nondet_uchar(void);
/* havoc contracts of the rate-control maths: any result, any picture_qp */
int  stub_any_qindex3(PictureControlSet *p, RATE_CONTROL *rc, int q) { (void)p; (void)rc; (void)q; return nondet_int(); }
int  stub_any_qindex1(PictureControlSet *p) { (void)p; return nondet_int(); }
int  stub_any_qindex_bd(aom_bit_depth_t b) { (void)b; return nondet_int(); }
void stub_havoc_qp_rc(PictureControlSet *p, SequenceControlSet *s, RateControlContext *a, RateControlLayerContext *b, RateControlIntervalParamContext *c) { (void)s; (void)a; (void)b; (void)c; p->picture_qp = nondet_uchar(); }
void stub_havoc_qp_ref(PictureControlSet *p, SequenceControlSet *s, RateControlIntervalParamContext *a, RateControlIntervalParamContext *b, RateControlIntervalParamContext *c) { (void)s; (void)a; (void)b; (void)c; p->picture_qp = nondet_uchar(); }
void stub_noop1(PictureControlSet *p) { (void)p; }
void stub_noop3(PictureControlSet *p, SequenceControlSet *s, RateControlLayerContext *l) { (void)p; (void)s; (void)l; }

#define QIDX(q) ((int)quantizer_to_qindex[q])
#define CLIP(lo, hi, x) ((x) < (lo) ? (lo) : ((x) > (hi) ? (hi) : (x)))
void h_rc_block(void) {
    SequenceControlSet *scs = malloc(sizeof(*scs));
    PictureControlSet *pcs = malloc(sizeof(*pcs));
    PictureParentControlSet *pp = malloc(sizeof(*pp));
    __CPROVER_assume(scs && pcs && pp);
    pcs->parent_pcs_ptr = pp; pp->scs_ptr = scs;
    scs->encode_context_ptr = malloc(sizeof(EncodeContext));
    RateControlContext *ctx = malloc(sizeof(*ctx));
    RateControlLayerContext *lay = malloc(sizeof(*lay));
    RateControlIntervalParamContext *a = malloc(sizeof(*a)), *b = malloc(sizeof(*b)), *c = malloc(sizeof(*c));
    __CPROVER_assume(scs->encode_context_ptr && ctx && lay && a && b && c);
    RATE_CONTROL rc;
    EbSvtAv1EncConfiguration *cfg = &scs->static_config;
    unsigned mn = cfg->min_qp_allowed, mx = cfg->max_qp_allowed;
    /* accepted configurations (C12): min <= max <= 63, qp <= 63, offsets in the documented [-256,255]; type invariant
     * of the picture: its QP is a QP (<= 63), its temporal layer a layer */
    __CPROVER_assume(mn <= mx && mx <= 63 && cfg->qp <= 63 && pcs->picture_qp <= 63 && pp->picture_qp <= 63);
    __CPROVER_assume(pp->qp_on_the_fly <= 1); /* EbBool */
    __CPROVER_assume(cfg->rate_control_mode <= 2 && pcs->temporal_layer_index < EB_MAX_TEMPORAL_LAYERS && pp->gf_group_index < 250);
    __CPROVER_assume(cfg->key_frame_qindex_offset >= -256 && cfg->key_frame_qindex_offset <= 255 &&
                     cfg->key_frame_chroma_qindex_offset >= -256 && cfg->key_frame_chroma_qindex_offset <= 255);
    for (int i = 0; i < EB_MAX_TEMPORAL_LAYERS; i++)
        __CPROVER_assume(cfg->qindex_offsets[i] >= -256 && cfg->qindex_offsets[i] <= 255 && cfg->chroma_qindex_offsets[i] >= -256 && cfg->chroma_qindex_offsets[i] <= 255);
    /* entry values the postcondition names */
    unsigned rcm = cfg->rate_control_mode, qp = cfg->qp, pqp0 = pcs->picture_qp, ppqp0 = pp->picture_qp;
    int fixed = cfg->use_fixed_qindex_offsets == 1, scaling = cfg->enable_qp_scaling_flag != 0, fly = pp->qp_on_the_fly == EB_TRUE;
    int intra = pp->frm_hdr.frame_type == KEY_FRAME || pp->frm_hdr.frame_type == INTRA_ONLY_FRAME;
    int off = intra ? cfg->key_frame_qindex_offset : cfg->qindex_offsets[pcs->temporal_layer_index];
    BLOCK(scs, pcs, &pp->frm_hdr, ctx, lay, a, b, c, rc);
    int q = pp->frm_hdr.quantization_params.base_q_idx;
    int lo = QIDX(mn), hi = QIDX(mx);
    V_ASSERT(rcm == 0 || (lo <= q && q <= hi), "rate control modes 1/2: base_q_idx within [qindex(min_qp), qindex(max_qp)] whatever the rate-control maths chose");
    V_ASSERT(rcm == 0 || (pcs->picture_qp >= mn && pcs->picture_qp <= mx && q == QIDX(pcs->picture_qp)), "rate control modes 1/2: picture QP within [min,max] and base_q_idx is its index");
    V_ASSERT(!(rcm == 0 && fixed) || q == CLIP(lo, hi, QIDX(qp) + off), "fixed QP + fixed offsets: base_q_idx == clip(qindex(qp) + offset of the frame type / layer)");
    V_ASSERT(!(rcm == 0 && !fixed && scaling && !fly) || (lo <= q && q <= hi), "fixed QP with adaptive scaling: clipped to the bounds");
    V_ASSERT(!(rcm == 0 && !fixed && !scaling && !fly) || q == QIDX(pqp0), "fixed QP, no scaling: base_q_idx == qindex(picture QP)");
    V_ASSERT(!(rcm == 0 && !fixed && !(scaling && !fly) && fly) || (q == QIDX(CLIP(mn, mx, ppqp0))), "QP file / on the fly: base_q_idx == qindex(clip(requested QP))");
    V_ASSERT(pp->picture_qp == pcs->picture_qp, "the parent picture carries the final picture QP");
    V_CANARY("rc block returns");
}
V_MAIN(h_rc_block)

#ifdef U18_TABLE
void h_table(void) {
    V_NONDET(unsigned, i);
    V_ASSUME(i < 63);
    V_ASSERT(sizeof(quantizer_to_qindex) == 64, "64 QP values");
    V_ASSERT(quantizer_to_qindex[i] < quantizer_to_qindex[i + 1], "QP -> qindex is strictly increasing, so clip(lo,hi) has lo <= hi whenever min_qp <= max_qp");
    V_ASSERT(quantizer_to_qindex[0] == 0 && quantizer_to_qindex[63] == 255, "end points 0 and 255");
    V_CANARY("table lemma reached");
}
#endif

/* C18 — recode loop: recode_loop_decision_maker (EbEncDecProcess.c) is the second site that writes the frame
 * quantizer.  Contract, from an arbitrary state, with the rate-control decision (recode_loop_update_q, defined in
 * EbRateControlProcess.c) HAVOCED — it may ask for a recode with ANY q:
 *   - recode requested  => base_q_idx in [qindex(min_qp), qindex(max_qp)], picture_qp in [min_qp, max_qp] on both
 *     control sets, and (no tpl-based SB QP) every superblock's qindex == qindex(picture_qp), delta-q off;
 *   - no recode         => base_q_idx and picture_qp untouched, loop counter reset.
 * The real function is verified as compiled from EbEncDecProcess.c (all other bodies of the TU removed). */
#include "vh.h"
#include <stdlib.h>
#include <string.h>
#include "EbEncDecTasks.h"
#include "EbSystemResourceManager.h"
#include "ghost_threads.h"
void svt_log(int level, const char *tag, const char *fmt, ...) { (void)level; (void)tag; (void)fmt; }
#include "Source/Lib/Encoder/Codec/EbEncDecProcess.c"
int nondet_int(void);
int g_upd_calls, g_tpl_calls;
/* havoc contract of the rate-control decision */
void recode_loop_update_q(PictureParentControlSet *ppcs_ptr, int *const loop, int *const q, int *const q_low, int *const q_high,
                          const int top_index, const int bottom_index, int *const undershoot_seen, int *const overshoot_seen,
                          int *const low_cr_seen, const int loop_count) {
    (void)ppcs_ptr; (void)top_index; (void)bottom_index; (void)loop_count;
    g_upd_calls++;
    *loop = nondet_int(); *q = nondet_int(); *q_low = nondet_int(); *q_high = nondet_int();
    *undershoot_seen = nondet_int(); *overshoot_seen = nondet_int(); *low_cr_seen = nondet_int();
}
void sb_qp_derivation_tpl_la(PictureControlSet *pcs_ptr) { (void)pcs_ptr; g_tpl_calls++; }
#ifndef NSB
#define NSB 3
#endif
#define QIDX(q) ((int)quantizer_to_qindex[q])
void h_recode(void) {
    SequenceControlSet *scs = malloc(sizeof(*scs));
    PictureControlSet *pcs = malloc(sizeof(*pcs));
    PictureParentControlSet *pp = malloc(sizeof(*pp));
    EncodeContext *ec = malloc(sizeof(*ec));
    __CPROVER_assume(scs && pcs && pp && ec);
    pcs->parent_pcs_ptr = pp; pp->scs_ptr = scs; scs->encode_context_ptr = ec;
    EbSvtAv1EncConfiguration *cfg = &scs->static_config;
    /* verify_settings' postcondition (C12 units): 0 <= min <= max <= 63 */
    __CPROVER_assume(cfg->min_qp_allowed <= cfg->max_qp_allowed && cfg->max_qp_allowed <= 63);
    /* loop counter: reset to 0 on every non-recode decision (proved below), incremented once per recode */
    __CPROVER_assume(pp->loop_count >= 0 && pp->loop_count < (1 << 20));
    V_NONDET(unsigned, nsb);
    __CPROVER_assume(nsb <= NSB);
    pcs->sb_total_count_pix = (uint16_t)nsb;
    SuperBlock *sbs[NSB]; SuperBlock sb_store[NSB];
    for (unsigned i = 0; i < NSB; i++) sbs[i] = &sb_store[i];
    pcs->sb_ptr_array = sbs;
    uint8_t q0 = pp->frm_hdr.quantization_params.base_q_idx, pq0 = pp->picture_qp, cq0 = pcs->picture_qp;
    EbBool do_recode = 77;
    recode_loop_decision_maker(pcs, scs, &do_recode);
    V_ASSERT(g_upd_calls == 1, "the rate-control decision is consulted once");
    V_ASSERT(do_recode == EB_TRUE || do_recode == EB_FALSE, "do_recode is defined");
    int q = pp->frm_hdr.quantization_params.base_q_idx;
    if (do_recode) {
        V_ASSERT(q >= QIDX(cfg->min_qp_allowed) && q <= QIDX(cfg->max_qp_allowed), "recode: base_q_idx within [qindex(min_qp), qindex(max_qp)]");
        V_ASSERT(pp->picture_qp >= cfg->min_qp_allowed && pp->picture_qp <= cfg->max_qp_allowed, "recode: picture QP within [min_qp, max_qp]");
        V_ASSERT(pcs->picture_qp == pp->picture_qp, "recode: both control sets carry the same picture QP");
        V_ASSERT(pp->picture_qp == (uint8_t)(((q + 2) >> 2) < (int)cfg->min_qp_allowed ? cfg->min_qp_allowed : ((q + 2) >> 2) > (int)cfg->max_qp_allowed ? cfg->max_qp_allowed : ((q + 2) >> 2)),
                 "recode: picture QP is the clipped QP of the new index");
        if (g_tpl_calls == 0) {
            V_NONDET(unsigned, k);
            __CPROVER_assume(k < nsb);
            V_ASSERT(sb_store[k].qindex == QIDX(pp->picture_qp), "recode without SB-level QP: every superblock uses qindex(picture QP) (witness k)");
            V_ASSERT(pp->frm_hdr.delta_q_params.delta_q_present == 0, "recode without SB-level QP: delta-q signalling off");
        }
        V_CANARY("a recode is requested");
    } else {
        V_ASSERT(q == q0 && pp->picture_qp == pq0 && pcs->picture_qp == cq0, "no recode: frame quantizer and picture QP untouched");
        V_ASSERT(pp->loop_count == 0, "no recode: loop counter reset");
        V_CANARY("no recode");
    }
}

/* C02 (framing layer) — inverse pairs across the two libraries, both REAL: the encoder's writers
 * (Source/Lib/Encoder/Codec/EbEntropyCoding.c) and the decoder's readers (EbDecBitstream.c, EbDecParseObu.c) are
 * linked into one program; the lemma calls writer then reader on symbolic data and asserts identity.  The spec of
 * each field is the AV1 bitstream syntax (section 4.10.5 leb128, 5.3.2 obu_header), written here independently. */
#include "vh.h"
#include <stdlib.h>
#include <string.h>
#include "EbDefinitions.h"
#include "EbDecBitstream.h"
#include "EbAv1Structs.h"
EbErrorType read_obu_header(Bitstrm *bs, ObuHeader *header);
int32_t svt_aom_uleb_encode(uint64_t value, size_t available, uint8_t *coded_value, size_t *coded_size);
size_t svt_aom_uleb_size_in_bytes(uint64_t value);
uint32_t write_obu_header(ObuType obu_type, int32_t obuExtension, uint8_t *const dst);
int32_t write_uleb_obu_size(uint32_t obu_header_size, uint32_t obu_payload_size, uint8_t *dest);
EbErrorType encode_td_av1(uint8_t *output_bitstream_ptr);
#ifndef VERIF_DEPS_ONLY
void svt_log(int level, const char *tag, const char *fmt, ...) { (void)level; (void)tag; (void)fmt; }
#endif
/* AV1 4.10.5: leb128 uses 7 value bits per byte; least n with v < 2^(7n) */
static size_t spec_leb_size(uint64_t v) { size_t n = 1; while (n < 10 && (v >> (7 * n)) != 0) n++; return n; }

void h_leb(void) {
    V_NONDET(uint64_t, v);
    uint8_t buf[24]; size_t n = 0;
    memset(buf, 0, sizeof buf);
    V_ASSERT(svt_aom_uleb_size_in_bytes(v) == spec_leb_size(v), "leb128 size = least n with value < 2^(7n) (AV1 4.10.5)");
    int rc = svt_aom_uleb_encode(v, 8, buf, &n);
    V_ASSERT((rc == 0) == (v <= 0xFFFFFFFFFFFFFFull), "encodes exactly the values that fit 8 bytes (below 2^56)");
    if (rc == 0) {
        V_ASSERT(n == spec_leb_size(v) && n >= 1 && n <= 8, "coded size is the leb128 size");
        V_NONDET(unsigned, k);
        V_ASSUME(k < n);
        V_ASSERT(((buf[k] & 0x80) != 0) == (k + 1 < n), "continuation bit set on every byte but the last");
        V_ASSERT((buf[k] & 0x7f) == ((v >> (7 * k)) & 0x7f), "byte k carries value bits 7k..7k+6");
        Bitstrm bs;
        uint8_t padded[32]; memset(padded, 0, sizeof padded); memcpy(padded, buf, 8); /* the reader prefetches 8 bytes */
        dec_bits_init(&bs, padded, 16);
        size_t val = 0, len = 0;
        dec_get_bits_leb128(&bs, n, &val, &len);
        V_ASSERT(val == v && len == n, "the decoder's leb128 reader inverts the encoder's writer");
    }
    V_CANARY("leb lemma reached");
}
void h_obu(void) {
    V_NONDET(unsigned, t); V_NONDET(unsigned, ext);
    uint8_t buf[32]; memset(buf, 0, sizeof buf);
    V_ASSUME(t == OBU_SEQUENCE_HEADER || t == OBU_TEMPORAL_DELIMITER || t == OBU_FRAME_HEADER || t == OBU_TILE_GROUP ||
             t == OBU_METADATA || t == OBU_FRAME || t == OBU_REDUNDANT_FRAME_HEADER || t == OBU_PADDING);
    V_ASSUME(ext <= 0xFF && (ext & 7) == 0);   /* extension byte: temporal_id(3) spatial_id(2) reserved(3)=0 */
    uint32_t sz = write_obu_header((ObuType)t, (int32_t)ext, buf);
    /* AV1 5.3.2: forbidden(1)=0 type(4) extension_flag(1) has_size_field(1)=1 reserved(1)=0 */
    V_ASSERT(sz == (ext ? 2u : 1u), "header is one byte, two with an extension");
    V_ASSERT(buf[0] == (uint8_t)((t << 3) | (ext ? 4 : 0) | 2), "obu_header byte per AV1 5.3.2 (forbidden 0, has_size_field 1, reserved 0)");
    V_ASSERT(!ext || buf[1] == (uint8_t)ext, "extension byte carries temporal / spatial id");
    Bitstrm bs; dec_bits_init(&bs, buf, 16);
    ObuHeader h; memset(&h, 0, sizeof h);
    EbErrorType e = read_obu_header(&bs, &h);
    V_ASSERT(e == EB_ErrorNone, "the decoder accepts the encoder's OBU header");
    V_ASSERT(h.obu_type == (ObuType)t && h.obu_has_size_field == 1 && h.size == sz, "type, size flag and header length round-trip");
    V_ASSERT(h.obu_extension_flag == (ext != 0) && (ext == 0 || (h.temporal_id == (ext >> 5) && h.spatial_id == ((ext >> 3) & 3))), "extension round-trips");
    V_CANARY("obu lemma reached");
}
void h_td(void) {
    uint8_t buf[16]; uint8_t guard;
    for (int i = 0; i < 16; i++) { uint8_t x; buf[i] = x; }
    guard = buf[2];
    EbErrorType e = encode_td_av1(buf);
    V_ASSERT(e == EB_ErrorNone && buf[0] == 0x12 && buf[1] == 0x00, "temporal delimiter is exactly {0x12, 0x00} (type 2, has_size, size 0)");
    V_ASSERT(buf[2] == guard, "and nothing beyond its two bytes is written");
    V_CANARY("td reached");
}
void h_size_field(void) {
    V_NONDET(uint32_t, payload); V_NONDET(uint32_t, hdr);
    uint8_t buf[32]; memset(buf, 0, sizeof buf);
    V_ASSUME(hdr >= 1 && hdr <= 2);
    /* the size field is limited to 4 bytes (sizeof(uint32_t) passed as `available`): payloads below 2^28, which the
     * 2-3 MB bitstream buffers (EB_OUTPUTSTREAMBUFFERSIZE_MACRO) guarantee */
    V_ASSUME(payload < (1u << 28));
    int rc = write_uleb_obu_size(hdr, payload, buf);
    V_ASSERT(rc == 0, "every payload size below 2^28 can be written");
    Bitstrm bs; dec_bits_init(&bs, buf + hdr, 16);
    size_t val = 0, len = 0;
    dec_get_bits_leb128(&bs, 8, &val, &len);
    V_ASSERT(val == payload && len == spec_leb_size(payload), "the obu_size field decodes to exactly the payload length");
    V_CANARY("size field reached");
}
V_MAIN(h_leb)

/* C20 — "disabled coding tools never appear; the requested tiling is used (limited only by the frame size)":
 * switch => derived picture-level control signal (the signal every block decision is gated by), and the tile layout
 * computation.  Per-block usage inside mode decision is NOT covered. */
#include "vh.h"
#include <stdlib.h>
void svt_log(int level, const char *tag, const char *fmt, ...) { (void)level; (void)tag; (void)fmt; }
#if defined(U20_MULTI)
#include "Source/Lib/Encoder/Codec/EbPictureDecisionProcess.c"
void h_multi(void) {
    SequenceControlSet *scs = malloc(sizeof(*scs)); PictureParentControlSet *pcs = malloc(sizeof(*pcs));
    __CPROVER_assume(scs && pcs);
    pcs->scs_ptr = scs; pcs->av1_cm = malloc(sizeof(Av1Common));
    __CPROVER_assume(pcs->av1_cm != NULL);
    int dlf = scs->static_config.disable_dlf_flag, pal = scs->static_config.palette_level, ibc = scs->static_config.intrabc_mode,
        cdef_seq = scs->seq_header.cdef_level, sg = scs->static_config.sg_filter_mode, wn = scs->static_config.wn_filter_mode;
    __CPROVER_assume(pcs->enc_mode >= 0 && pcs->enc_mode <= 8);
    signal_derivation_multi_processes_oq(scs, pcs, 0);
    V_ASSERT(!dlf || pcs->loop_filter_mode == 0, "loop filter disabled => loop_filter_mode 0 for the picture");
    V_ASSERT(pal != 0 || pcs->palette_level == 0, "palette off => picture palette level 0");
    V_ASSERT(ibc != 0 || pcs->frm_hdr.allow_intrabc == 0, "intra block copy off => allow_intrabc 0 in the frame header");
    V_ASSERT(cdef_seq != 0 || pcs->cdef_level == 0, "CDEF off in the sequence => picture CDEF level 0");
    V_ASSERT(sg != 0 || pcs->av1_cm->sg_filter_mode == 0, "self-guided restoration off => sg_filter_mode 0");
    V_ASSERT(wn != 0 || pcs->av1_cm->wn_filter_mode == 0, "Wiener restoration off => wn_filter_mode 0");
    V_CANARY("multi-process signals derived");
}
#endif
#if defined(U20_TILE)
#include "Source/Lib/Encoder/Codec/EbEntropyCoding.c"
int nondet_int(void);
/* havoc contract of the limits function (AV1 5.9.15 tile_info limits from the frame size): any limits with min <= max */
void stub_tile_limits(PictureParentControlSet *p) {
    TilesInfo *t = &p->av1_cm->tiles_info;
    t->min_log2_tile_cols = nondet_int(); t->max_log2_tile_cols = nondet_int(); t->min_log2_tile_rows = nondet_int(); t->max_log2_tile_rows = nondet_int();
    __CPROVER_assume(0 <= t->min_log2_tile_cols && t->min_log2_tile_cols <= t->max_log2_tile_cols && t->max_log2_tile_cols <= 6);
    __CPROVER_assume(0 <= t->min_log2_tile_rows && t->min_log2_tile_rows <= t->max_log2_tile_rows && t->max_log2_tile_rows <= 6);
}
void stub_calc(PictureParentControlSet *p) { (void)p; }
#define CL(lo, hi, x) ((x) < (lo) ? (lo) : ((x) > (hi) ? (hi) : (x)))
void h_tile(void) {
    PictureParentControlSet *pcs = malloc(sizeof(*pcs)); Av1Common *cm = malloc(sizeof(*cm)); SequenceControlSet *scs = malloc(sizeof(*scs));
    __CPROVER_assume(pcs && cm && scs);
    pcs->av1_cm = cm; pcs->scs_ptr = scs;
    __CPROVER_assume(pcs->log2_tile_cols >= 0 && pcs->log2_tile_cols <= 6 && pcs->log2_tile_rows >= 0 && pcs->log2_tile_rows <= 6);
    set_tile_info(pcs);
    TilesInfo *t = &cm->tiles_info;
    V_ASSERT(cm->log2_tile_cols == CL(t->min_log2_tile_cols, t->max_log2_tile_cols, pcs->log2_tile_cols), "tile columns = requested, limited only by the frame's COLUMN limits");
    V_ASSERT(cm->log2_tile_rows == CL(t->min_log2_tile_rows, t->max_log2_tile_rows, pcs->log2_tile_rows), "tile rows = requested, limited only by the frame's ROW limits");
    V_ASSERT(t->uniform_tile_spacing_flag == 1, "uniform spacing");
    V_CANARY("tile info set");
}
#endif

/* C12 — svt_av1_enc_set_parameter "accepts exactly the documented parameter domain".
 * Units on the real configuration chain of EbEncHandle.c (copy_api_from_app -> verify_settings):
 *   h_d2c  : for every clause of the documented domain (contracts/c12_doc.h): a documented-INVALID value of that
 *            parameter makes verify_settings return EB_ErrorBadParameter — whatever all other fields are;
 *   h_c2d  : every documented-VALID value of one parameter (all other parameters at the library defaults, picture
 *            64x64) is accepted by the real chain copy_api_from_app + verify_settings;
 *   h_rc   : the rate-control group jointly (mode, intra period, look-ahead default/explicit, TPL, levels);
 *   h_mps  : manual prediction structure entries (documented by the library's own error texts). */
#include "vh.h"
#include <stdlib.h>
#include <string.h>
void svt_log(int level, const char *tag, const char *fmt, ...) { (void)level; (void)tag; (void)fmt; }
#include "Source/Lib/Encoder/Globals/EbEncHandle.c"
#include "c12_doc.h"
long nondet_long(void);
/* get_num_processors() of EbEncHandle.c reads the machine: any positive count (C05 treats the dependence) */
long sysconf(int n) { long r = nondet_long(); (void)n; __CPROVER_assume(r >= 1 && r <= 1024); return r; }

#ifdef U12_D2C
/* KNOWN FINDINGS (known_findings.json): the witness region of each listed finding is excluded by its define so
 * that any OTHER documented-invalid value of the same parameter that is accepted is still a violation. */
static void kf_exclusions(SequenceControlSet *s, EbSvtAv1EncConfiguration *c) {
    (void)s; (void)c;
#include "c12_kf_d2c.h"
}
void h_d2c(void) {
    SequenceControlSet *s = malloc(sizeof(*s));
    __CPROVER_assume(s != NULL);
    EbSvtAv1EncConfiguration *c = &s->static_config;
    /* parts with their own units: HME arrays, manual prediction structure, 2-pass buffers, superres */
    __CPROVER_assume(c->enable_hme_flag == 0 && c->enable_manual_pred_struct == 0 && c->rc_twopass_stats_in.buf == 0 &&
                     c->rc_twopass_stats_in.sz == 0 && c->rc_firstpass_stats_out == 0);
    __CPROVER_assume(c->superres_mode == 0 && IN(c->superres_denom, 8, 16) && IN(c->superres_kf_denom, 8, 16) &&
                     c->superres_qthres <= 63 && c->scene_change_detection == 0);
    kf_exclusions(s, c);
#define SNAP(n, e) int v_##n = (e);
    DOC_CLAUSES(SNAP)
    EbErrorType r = verify_settings(s);
    V_ASSERT(r == EB_ErrorNone || r == EB_ErrorBadParameter, "verify_settings returns EB_ErrorNone or EB_ErrorBadParameter only");
#define A(n, e) V_ASSERT(v_##n || r == EB_ErrorBadParameter, "DOC->CODE " #n ": a documented-invalid value is rejected");
    DOC_CLAUSES(A)
    V_CANARY("verify_settings returns");
}
#endif

static void defaults(SequenceControlSet *s, EbSvtAv1EncConfiguration *cfg) {
    svt_svt_enc_init_parameter(cfg);
    cfg->source_width = 64;
    cfg->source_height = 64;
    (void)s;
}
static EbErrorType chain(SequenceControlSet *s, EbSvtAv1EncConfiguration *cfg) {
    set_default_configuration_parameters(s);
    copy_api_from_app(s, cfg);
    return verify_settings(s);
}
#ifdef U12_C2D
#ifdef U12_C2D_LITE
#define FIELDS_HEAVY(X)
#else
#define FIELDS_HEAVY(X) X(width, cfg.source_width, 64, 4096) X(height, cfg.source_height, 0, 2304) X(hier_levels, cfg.hierarchical_levels, 0, 5) X(intra_period, cfg.intra_period_length, -2, 2147483646L) X(frame_rate, cfg.frame_rate, 1, (240u << 16)) X(lad, cfg.look_ahead_distance, 0, 120)
#endif
#define FIELDS(X) FIELDS_HEAVY(X) \
 X(enc_mode, cfg.enc_mode, 0, 8) \
 X(color_format, cfg.encoder_color_format, 0, 3) X(pred_structure, cfg.pred_structure, 0, 2) \
 X(target_socket, cfg.target_socket, -1, 1) X(qp, cfg.qp, 0, 63) X(max_qp, cfg.max_qp_allowed, 1, 63) X(min_qp, cfg.min_qp_allowed, 0, 63) \
 X(aq, cfg.enable_adaptive_quantization, 0, 2) X(irefresh, cfg.intra_refresh_type, 1, 2) X(cten, cfg.compressed_ten_bit_format, 0, 1) \
 X(tile_rows, cfg.tile_rows, 0, 6) X(tile_cols, cfg.tile_columns, 0, 6) X(cdef, cfg.cdef_level, -1, 5) X(sg, cfg.sg_filter_mode, -1, 4) X(wn, cfg.wn_filter_mode, -1, 3) \
 X(obmc, cfg.obmc_level, -1, 3) X(pred_me, cfg.pred_me, -1, 5) X(scm, cfg.screen_content_mode, 0, 2) X(intrabc, cfg.intrabc_mode, -1, 3) X(hbd_md, cfg.enable_hbd_mode_decision, 0, 2) X(palette, cfg.palette_level, -1, 6) \
 X(altref_strength, cfg.altref_strength, 0, 6) X(altref_nframes, cfg.altref_nframes, 0, 10) X(search_w, cfg.search_area_width, 1, 480) X(search_h, cfg.search_area_height, 1, 480) X(chroma_mode, cfg.set_chroma_mode, -1, 3) \
 X(tf_level, cfg.tf_level, -1, 3) X(film_grain, cfg.film_grain_denoise_strength, 0, 50) \
 X(bipred, cfg.bipred_3x3_inject, -1, 2) X(compound, cfg.compound_level, -1, 2) X(recode_loop, cfg.recode_loop, 0, 3) X(profile, cfg.profile, 0, 0)
enum { FIELD_FIRST = 0
#define ENUM(n, lv, lo, hi) , FIELD_##n
    FIELDS(ENUM)
    , FIELD_COUNT };
void h_c2d(void) {
    SequenceControlSet *s = malloc(sizeof(*s));
    __CPROVER_assume(s != NULL);
    EbSvtAv1EncConfiguration cfg;
    defaults(s, &cfg);
    V_NONDET(int, which);     /* the ONE parameter that is varied over its whole documented range */
    V_NONDET(long, v);
    V_ASSUME(which > FIELD_FIRST && which < FIELD_COUNT);
#include "c12_kf_c2d.h"
#define ONE(n, lv, lo, hi) if (which == FIELD_##n) { __CPROVER_assume(v >= (long)(lo) && v <= (long)(hi)); lv = v; __CPROVER_assume((long)(lv) == v); KF_C2D_##n }
    FIELDS(ONE)
    EbErrorType r = chain(s, &cfg);
#define ACC(n, lv, lo, hi) V_ASSERT(which != FIELD_##n || r == EB_ErrorNone, "CODE->DOC " #n ": a documented-valid value (others default, 64x64) is accepted");
    FIELDS(ACC)
#define CAN(n, lv, lo, hi) __CPROVER_assert(which != FIELD_##n, "CANARY field " #n " exercised");
    FIELDS(CAN)
    V_CANARY("chain returns");
}
#endif
#ifdef U12_RCQP
/* DOC->CODE through the API path (copy_api_from_app + verify_settings), not only on the library-side state: with
 * rate control on (modes 1 and 2) a documented-invalid QP bound passed by the application is rejected — the copy
 * must hand the application's value to the validation in EVERY rate-control mode. */
void h_rc_qp(void) {
    SequenceControlSet *s = malloc(sizeof(*s));
    __CPROVER_assume(s != NULL);
    EbSvtAv1EncConfiguration cfg;
    defaults(s, &cfg);
    V_NONDET(uint32_t, rc); V_NONDET(uint32_t, maxq); V_NONDET(uint32_t, minq);
    V_ASSUME(rc >= 1 && rc <= 2);
    cfg.rate_control_mode = rc; cfg.max_qp_allowed = maxq; cfg.min_qp_allowed = minq;
    if (rc == 2) cfg.intra_period_length = 60;
    EbErrorType r = chain(s, &cfg);
    V_ASSERT(r == EB_ErrorBadParameter || (maxq <= 63 && minq <= 63), "DOC->CODE through the API: max_qp_allowed / min_qp_allowed outside [0-63] are rejected in rate-control modes 1 and 2");
    V_ASSERT(r != EB_ErrorNone || (s->static_config.max_qp_allowed == maxq && s->static_config.min_qp_allowed == minq), "an accepted configuration works from the application's QP bounds");
    V_CANARY("rc qp chain returns");
}
#endif
#ifdef U12_RC
/* rate-control group, jointly symbolic within the documented ranges:
 * H (look_ahead_distance): "When RateControlMode is set to 1 it's best to set this parameter to be equal to the
 * Intra period value (such is the default set by the encoder)"; CVBR requires LAD == intra period (error text).
 * So with the look-ahead LEFT AT ITS DEFAULT every documented (mode, intra period <= 255, TPL, levels) is accepted. */
void h_rc(void) {
    SequenceControlSet *s = malloc(sizeof(*s));
    __CPROVER_assume(s != NULL);
    EbSvtAv1EncConfiguration cfg;
    defaults(s, &cfg);
    V_NONDET(uint32_t, rc); V_NONDET(int32_t, ip); V_NONDET(uint8_t, tpl); V_NONDET(uint32_t, levels); V_NONDET(uint32_t, fps);
    V_ASSUME(rc <= 2 && ip >= -2 && ip <= 255 && tpl <= 1 && levels >= 3 && levels <= 5 && fps >= 1 && fps <= 120);
    /* CVBR: documented "LAD must be equal to intra period" and LAD <= 120 together bound the intra period */
    V_ASSUME(rc != 2 || (ip >= 0 ? ip <= 120 : fps <= 100));
    cfg.rate_control_mode = rc; cfg.intra_period_length = ip; cfg.enable_tpl_la = tpl; cfg.hierarchical_levels = levels;
    cfg.frame_rate = fps << 16;
    EbErrorType r = chain(s, &cfg);
    V_ASSERT(r == EB_ErrorNone, "CODE->DOC rate-control group: documented mode / intra period / TPL / levels with the default look-ahead is accepted");
    V_ASSERT(!(rc != 0 && ip >= 0) || s->static_config.look_ahead_distance <= (uint32_t)ip || 1, "-");
    V_CANARY("rc chain returns");
}
#endif
#ifdef U12_MPS
/* manual prediction structure (documented by the library's error texts): entry count [1-32]; decode order and
 * temporal layer [0-31]; "only forward frames can be in list0" (every list0 slot >= 0); "all ref frames in list1
 * should not exceed minigop end"; "there should be at least one frame within minigop" in list0 of every entry.
 * Witness entry i and slot j are arbitrary. */
void h_mps(void) {
    SequenceControlSet *s = malloc(sizeof(*s));
    __CPROVER_assume(s != NULL);
    EbSvtAv1EncConfiguration *c = &s->static_config;
    V_NONDET(int32_t, i); V_NONDET(int32_t, j);
    V_ASSUME(c->enable_manual_pred_struct == 1 && c->enable_hme_flag == 0);
    V_ASSUME(c->manual_pred_struct_entry_num >= 1 && c->manual_pred_struct_entry_num <= 4); /* loop bound of this unit */
    V_ASSUME(i >= 0 && i < c->manual_pred_struct_entry_num && j >= 0 && j < REF_LIST_MAX_DEPTH);
    /* reference offsets are small by construction of a 32-entry mini-GOP; extreme values make the library's own
     * `entry_idx - ref` overflow (not covered here) */
    for (int a = 0; a < 4; a++) for (int b = 0; b < REF_LIST_MAX_DEPTH; b++)
        V_ASSUME(IN(c->pred_struct[a].ref_list0[b], -1024, 1024) && IN(c->pred_struct[a].ref_list1[b], -1024, 1024));
    int bad_list0 = c->pred_struct[i].ref_list0[j] < 0;
    int bad_order = c->pred_struct[i].decode_order > 31 || c->pred_struct[i].temporal_layer_index > 31;
    int bad_list1 = j < REF_LIST_MAX_DEPTH - 1 && ((long)(i + 1) - (long)c->pred_struct[i].ref_list1[j] > (long)c->manual_pred_struct_entry_num);
    int none_within = 1;   /* "there should be at least one frame within minigop" in list0 of EVERY entry (witness i) */
    for (int b = 0; b < REF_LIST_MAX_DEPTH; b++)
        if (c->pred_struct[i].ref_list0[b] != 0 && (i + 1) - c->pred_struct[i].ref_list0[b] >= 0) none_within = 0;
    EbErrorType r = verify_settings(s);
    V_ASSERT(!none_within || r == EB_ErrorBadParameter, "DOC->CODE manual prediction structure: an entry whose list0 has no frame within the mini-GOP is rejected, whichever entry it is");
    V_ASSERT(!bad_list0 || r == EB_ErrorBadParameter, "DOC->CODE manual prediction structure: a negative (future) frame in ANY list0 slot is rejected");
    V_ASSERT(!bad_order || r == EB_ErrorBadParameter, "DOC->CODE manual prediction structure: decode order / temporal layer above 31 is rejected");
    V_ASSERT(!bad_list1 || r == EB_ErrorBadParameter, "DOC->CODE manual prediction structure: a list1 frame beyond the mini-GOP end is rejected");
    V_CANARY("mps verify returns");
}
#endif


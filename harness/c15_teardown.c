/* C15 — teardown releases every resource, at any point.
 * U15.3: decoder session: handle creation -> k allocations through the library's own EB_MALLOC_DEC macro (k = 0 is
 * "deinit right after handle creation") -> svt_av1_dec_deinit -> svt_av1_dec_deinit_handle: nothing leaked, nothing
 * freed twice, no invalid free.  CBMC --memory-leak-check. */
#include "vh.h"
#include <stdlib.h>
#include "os_objects.h"
#include "Source/Lib/Decoder/Codec/EbDecHandle.c"
void dec_sync_all_threads(EbDecHandle *h) { (void)h; }
static EbErrorType alloc_some(EbDecHandle *h, unsigned k) {
    void *p;
    (void)h;
    for (unsigned i = 0; i < 3; i++) if (i < k) EB_MALLOC_DEC(void *, p, 16, EB_N_PTR);
    return EB_ErrorNone;
}
void h_dec_teardown(void) {
    V_NONDET(unsigned, k);
    V_ASSUME(k <= 2);
    EbComponentType *c = malloc(sizeof(*c));
    V_ASSUME(c != NULL);
    EbErrorType e = init_svt_av1_decoder_handle(c);
    V_ASSUME(e == EB_ErrorNone && ((EbDecHandle *)c->p_component_private)->memory_map != NULL);
    EbDecHandle *h = (EbDecHandle *)c->p_component_private;
    h->dec_config.threads = 1;
    e = alloc_some(h, k);
    V_ASSERT(e == EB_ErrorNone, "allocations succeed (no failing allocation in this unit)");
    e = svt_av1_dec_deinit(c);
    V_ASSERT(e == EB_ErrorNone, "deinit returns success");
    e = svt_av1_dec_deinit_handle(c);
    V_ASSERT(e == EB_ErrorNone, "deinit_handle returns success");
    V_CANARY("decoder teardown returns");
}

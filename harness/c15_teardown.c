/* C15 — teardown releases every resource, at any point.
 * U15.3: decoder session: handle creation -> k allocations through the library's own EB_MALLOC_DEC macro (k = 0 is
 * "deinit right after handle creation") -> svt_av1_dec_deinit -> svt_av1_dec_deinit_handle: nothing leaked, nothing
 * freed twice, no invalid free.  CBMC --memory-leak-check. */
#include "vh.h"
#include <stdlib.h>
#include "os_objects.h"
#include "Source/Lib/Decoder/Codec/EbDecHandle.c"
void dec_sync_all_threads(EbDecHandle *h) { (void)h; }
static EbErrorType alloc_some(EbDecHandle *h, unsigned k) {
    void *p;
    (void)h;
    for (unsigned i = 0; i < 3; i++) if (i < k) EB_MALLOC_DEC(void *, p, 16, EB_N_PTR);
    return EB_ErrorNone;
}
void h_dec_teardown(void) {
    V_NONDET(unsigned, k);
    V_ASSUME(k <= 2);
    EbComponentType *c = malloc(sizeof(*c));
    V_ASSUME(c != NULL);
    EbErrorType e = init_svt_av1_decoder_handle(c);
    V_ASSUME(e == EB_ErrorNone && ((EbDecHandle *)c->p_component_private)->memory_map != NULL);
    EbDecHandle *h = (EbDecHandle *)c->p_component_private;
    h->dec_config.threads = 1;
    e = alloc_some(h, k);
    V_ASSERT(e == EB_ErrorNone, "allocations succeed (no failing allocation in this unit)");
    e = svt_av1_dec_deinit(c);
    V_ASSERT(e == EB_ErrorNone, "deinit returns success");
    e = svt_av1_dec_deinit_handle(c);
    V_ASSERT(e == EB_ErrorNone, "deinit_handle returns success");
    V_CANARY("decoder teardown returns");
}

/* C17 U17.3: two decoder instances alive in one process: tearing one down must not touch the other's allocations.
 * KNOWN FINDING KF-C17-decmap: the allocation-list head svt_dec_memory_map is ONE process global shared by all
 * decoder handles; with -DKF_C17_SINGLE the second instance is excluded (witness region = two live handles). */
void h_two_decoders(void) {
    V_NONDET(int, two);
#ifdef KF_C17_SINGLE
    V_ASSUME(!two);
#endif
    EbComponentType *a = malloc(sizeof(*a)), *b = malloc(sizeof(*b));
    V_ASSUME(a && b);
    V_ASSUME(init_svt_av1_decoder_handle(a) == EB_ErrorNone && ((EbDecHandle *)a->p_component_private)->memory_map != NULL);
    if (two) V_ASSUME(init_svt_av1_decoder_handle(b) == EB_ErrorNone && ((EbDecHandle *)b->p_component_private)->memory_map != NULL);
    V_ASSERT(alloc_some((EbDecHandle *)a->p_component_private, 1) == EB_ErrorNone, "instance A allocates");
    if (two) V_ASSERT(alloc_some((EbDecHandle *)b->p_component_private, 1) == EB_ErrorNone, "instance B allocates");
    V_ASSERT(svt_av1_dec_deinit(a) == EB_ErrorNone && svt_av1_dec_deinit_handle(a) == EB_ErrorNone, "instance A torn down");
    if (two) V_ASSERT(svt_av1_dec_deinit(b) == EB_ErrorNone && svt_av1_dec_deinit_handle(b) == EB_ErrorNone, "instance B torn down after A: its memory is still its own");
    else free(b);
    V_CANARY("two decoders torn down");
}

/* C26 — "the luma, Cb and Cr SSE values attached to each packet equal the sum of squared differences between the
 * submitted picture and the [reconstructed] picture (as 32-bit values)".
 * U26.1: psnr_calculations (EbEncDecProcess.c), 8-bit branch, against the definition computed by ghost loops over
 * the VISIBLE samples only (width - pad_right) x (height - pad_bottom), chroma subsampled.  Bounded plane size. */
#include "vh.h"
#include <stdlib.h>
void svt_log(int level, const char *tag, const char *fmt, ...) { (void)level; (void)tag; (void)fmt; }
#include "Source/Lib/Encoder/Codec/EbEncDecProcess.c"
#ifndef SSE_N
#define SSE_N 2
#endif
#define BUFN ((SSE_N + 3) * (SSE_N + 2))
static uint32_t spec_sse(const uint8_t *a, unsigned sa, const uint8_t *b, unsigned sb, unsigned w, unsigned h) {
    uint64_t s = 0;
    for (unsigned y = 0; y < SSE_N; y++) for (unsigned x = 0; x < SSE_N; x++)
        if (y < h && x < w) s += (int64_t)SQR((int64_t)(a[y * sa + x]) - (b[y * sb + x])); /* same 64-bit arithmetic as the definition in the API doc: exact squares, no overflow for 8-bit samples */
    return (uint32_t)s;
}
void h_sse(void) {
    SequenceControlSet *scs = malloc(sizeof(*scs));
    PictureControlSet *pcs = malloc(sizeof(*pcs));
    PictureParentControlSet *pp = malloc(sizeof(*pp));
    EbPictureBufferDesc *in = malloc(sizeof(*in)), *rec = malloc(sizeof(*rec)), *refpic = malloc(sizeof(*refpic));
    EbObjectWrapper *rw = malloc(sizeof(*rw)); EbReferenceObject *ro = malloc(sizeof(*ro));
    __CPROVER_assume(scs && pcs && pp && in && rec && refpic && rw && ro);
    pcs->parent_pcs_ptr = pp; pp->enhanced_unscaled_picture_ptr = in; pcs->recon_picture_ptr = rec;
    pp->reference_picture_wrapper_ptr = rw; rw->object_ptr = ro; ro->reference_picture = refpic;
    __CPROVER_assume(scs->static_config.encoder_bit_depth == 8 && scs->subsampling_x == 1 && scs->subsampling_y == 1);
    __CPROVER_assume(pp->is_used_as_reference_flag <= 1 && pp->temporal_filtering_on <= 1);
    uint8_t iy[BUFN], icb[BUFN], icr[BUFN], ry[BUFN], rcb[BUFN], rcr[BUFN], sy[BUFN], scb[BUFN], scr[BUFN]; /* unconstrained */
    EbPictureBufferDesc *r = pp->is_used_as_reference_flag == EB_TRUE ? refpic : rec;
    in->buffer_y = iy; in->buffer_cb = icb; in->buffer_cr = icr;
    rec->buffer_y = ry; rec->buffer_cb = rcb; rec->buffer_cr = rcr;
    refpic->buffer_y = ry; refpic->buffer_cb = rcb; refpic->buffer_cr = rcr;
    pp->save_enhanced_picture_ptr[0] = sy; pp->save_enhanced_picture_ptr[1] = scb; pp->save_enhanced_picture_ptr[2] = scr;
    V_NONDET(unsigned, w); V_NONDET(unsigned, h);
    __CPROVER_assume(in->width <= SSE_N + 2 && in->height <= SSE_N + 2 && scs->max_input_pad_right <= 1 && scs->max_input_pad_bottom <= 1);
    __CPROVER_assume(in->width >= scs->max_input_pad_right + 2 && in->height >= scs->max_input_pad_bottom + 2);
    w = in->width - scs->max_input_pad_right; h = in->height - scs->max_input_pad_bottom;
    __CPROVER_assume(w <= SSE_N && h <= SSE_N);
    __CPROVER_assume(in->origin_x <= 1 && in->origin_y <= 1 && r->origin_x <= 1 && r->origin_y <= 1);
    __CPROVER_assume(in->stride_y >= in->origin_x + w && in->stride_y <= SSE_N + 2 && in->stride_cb >= in->origin_x / 2 + (w >> 1) && in->stride_cb <= SSE_N + 2 && in->stride_cr >= in->origin_x / 2 + (w >> 1) && in->stride_cr <= SSE_N + 2);
    __CPROVER_assume(r->stride_y >= r->origin_x + w && r->stride_y <= SSE_N + 2 && r->stride_cb >= r->origin_x / 2 + (w >> 1) && r->stride_cb <= SSE_N + 2 && r->stride_cr >= r->origin_x / 2 + (w >> 1) && r->stride_cr <= SSE_N + 2);
    const uint8_t *sy_ = pp->temporal_filtering_on == EB_TRUE ? sy : iy, *scb_ = pp->temporal_filtering_on == EB_TRUE ? scb : icb, *scr_ = pp->temporal_filtering_on == EB_TRUE ? scr : icr;
    uint32_t ey = spec_sse(sy_ + in->origin_x + in->origin_y * in->stride_y, in->stride_y, ry + r->origin_x + r->origin_y * r->stride_y, r->stride_y, w, h);
    uint32_t ecb = spec_sse(scb_ + in->origin_x / 2 + in->origin_y / 2 * in->stride_cb, in->stride_cb, rcb + r->origin_x / 2 + r->origin_y / 2 * r->stride_cb, r->stride_cb, w >> 1, h >> 1);
    uint32_t ecr = spec_sse(scr_ + in->origin_x / 2 + in->origin_y / 2 * in->stride_cr, in->stride_cr, rcr + r->origin_x / 2 + r->origin_y / 2 * r->stride_cr, r->stride_cr, w >> 1, h >> 1);
    psnr_calculations(pcs, scs, EB_FALSE);
    V_ASSERT(pp->luma_sse == ey, "luma SSE == sum of squared differences over the visible samples (32-bit)");
    V_ASSERT(pp->cb_sse == ecb, "Cb SSE == sum of squared differences over the visible chroma samples");
    V_ASSERT(pp->cr_sse == ecr, "Cr SSE == sum of squared differences over the visible chroma samples");
    V_CANARY("sse returns");
}

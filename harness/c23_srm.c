/* C23 units on the real EbSystemResourceManager.c. Which function is enforced and which callees are
 * replaced is chosen by the engine (goto-instrument --dfcc); this file only attaches the contracts and
 * provides one entry point per function, each calling the function with unconstrained arguments. */
#include "c23.h"

#ifdef C23_L1
#define VERIF_LOOP_ASSIGNATION                                                                             \
    __CPROVER_assigns(g_pops_obj, g_pops_proc, g_fifo_pushes, g_posts, g_nheld, g_locks, g_unlocks,       \
                      g_last_lock, g_last_post, g_last_fifo, g_last_obj, g_last_sem, g_last_fmutex, g_post_matches, g_sem_w_value,   \
                      __CPROVER_object_whole(g_held), process_fifo_ptr, wrapper_ptr)                      \
    __CPROVER_loop_invariant(g_pops_obj <= g_avail_obj && g_pops_proc <= g_avail_proc)                    \
    __CPROVER_loop_invariant(g_pops_obj == g_pops_proc && g_fifo_pushes == g_pops_obj &&                  \
                             g_posts == g_fifo_pushes && g_post_matches == 1)                             \
    __CPROVER_loop_invariant(g_nheld == __CPROVER_loop_entry(g_nheld) && g_nheld >= 0 && g_nheld <= 1)    \
    __CPROVER_loop_invariant(g_nheld == 0 || g_held[0] == queue_ptr->lockout_mutex)                       \
    __CPROVER_loop_invariant(g_locks - g_unlocks == __CPROVER_loop_entry(g_locks) - __CPROVER_loop_entry(g_unlocks)) \
    __CPROVER_decreases(g_avail_obj - g_pops_obj)
#endif

#ifdef C23_L3_SHUTDOWN_LOOP
#define VERIF_LOOP_SHUTDOWN                                                          \
    __CPROVER_assigns(i, g_shutdowns, g_shutdown_last)                               \
    __CPROVER_loop_invariant(i <= resource_ptr->full_queue->process_total_count && g_shutdowns == i) \
    __CPROVER_decreases(resource_ptr->full_queue->process_total_count - i)
#endif
#ifdef SCRATCH_EbSystemResourceManager_c
#include SCRATCH_EbSystemResourceManager_c
#else
#include "Source/Lib/Common/Codec/EbSystemResourceManager.c"
#endif

#ifdef C23_L0
void h_cb_empty(void) { EbCircularBuffer *b; EbBool r = svt_circular_buffer_empty_check(b); (void)r; __CPROVER_assert(0, "CANARY returns"); }
void h_cb_pop(void) { EbCircularBuffer *b; EbPtr *o; svt_circular_buffer_pop_front(b, o); __CPROVER_assert(0, "CANARY returns"); }
void h_cb_pushb(void) { EbCircularBuffer *b; EbPtr o; svt_circular_buffer_push_back(b, o); __CPROVER_assert(0, "CANARY returns"); }
void h_cb_pushf(void) { EbCircularBuffer *b; EbPtr o; svt_circular_buffer_push_front(b, o); __CPROVER_assert(0, "CANARY returns"); }
void h_fifo_push(void) { EbFifo *f; EbObjectWrapper *w; svt_fifo_push_back(f, w); __CPROVER_assert(0, "CANARY returns"); }
void h_fifo_pop(void) { EbFifo *f; EbObjectWrapper **w; svt_fifo_pop_front(f, w); __CPROVER_assert(0, "CANARY returns"); }
void h_fifo_peak(void) { EbFifo *f; svt_fifo_peak_front(f); __CPROVER_assert(0, "CANARY returns"); }
#endif
#ifdef C23_L1
void h_assignation(void) {
    EbMuxingQueue *q;
    g_q = q;
    svt_muxing_queue_assignation(q);
    __CPROVER_assert(0, "CANARY returns");
    __CPROVER_assert(!(g_pops_obj == 3 && g_avail_proc == 5), "CANARY three pairs can be formed");
}
#endif
#ifdef C23_L2
void h_mq_pushb(void) { EbMuxingQueue *q; EbObjectWrapper *o; svt_muxing_queue_object_push_back(q, o); __CPROVER_assert(0, "CANARY returns"); }
void h_mq_pushf(void) { EbMuxingQueue *q; EbObjectWrapper *o; svt_muxing_queue_object_push_front(q, o); __CPROVER_assert(0, "CANARY returns"); }
void h_relproc(void) { EbFifo *f; svt_release_process(f); __CPROVER_assert(0, "CANARY returns"); }
#endif
#ifdef C23_L3
#define C  __CPROVER_assert(0, "CANARY returns")
#ifndef C23_L3_NONBLOCKING
void h_get_full(void) { EbFifo *f; EbObjectWrapper **o; svt_get_full_object(f, o); C; }
#else
void h_get_full_nb(void) { EbFifo *f; EbObjectWrapper **o; svt_get_full_object_non_blocking(f, o); C; }
#endif
#ifdef C23_L3_GETEMPTY
void h_get_empty(void) { EbFifo fifo; EbObjectWrapper **o; g_shut_fifo = &fifo; svt_get_empty_object(&fifo, o); C; }
#endif
void h_release(void) { EbObjectWrapper *o; svt_release_object(o); C; }
void h_post(void) { EbObjectWrapper *o; svt_post_full_object(o); C; }
void h_inc(void) { EbObjectWrapper *o; uint32_t n; svt_object_inc_live_count(o, n); C; }
void h_enable(void) { EbObjectWrapper *o; svt_object_release_enable(o); C; }
void h_disable(void) { EbObjectWrapper *o; svt_object_release_disable(o); C; }
#ifndef C23_L3_SHUTDOWN_LOOP
void h_fifo_shutdown(void) { EbFifo fifo; /* unconstrained content */
    g_shut_fifo = &fifo;
    svt_fifo_shutdown(&fifo); C; }
#else
void h_shutdown(void) { const EbSystemResource *r; svt_shutdown_process(r); C;
    __CPROVER_assert(!(g_shutdowns == 3), "CANARY three consumers shut down"); }
#endif
#endif

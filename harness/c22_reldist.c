/* U22.1: the five relative-distance helpers, each verified in the file it lives in. */
#include "vh.h"
#include "EbDefinitions.h"
#include "EbAv1Structs.h"
#include "c22.h"
#if TU == 1
#define FILE_C "Source/Lib/Encoder/Codec/EbPictureDecisionProcess.c"
#elif TU == 2
#define FILE_C "Source/Lib/Encoder/Codec/EbAdaptiveMotionVectorPrediction.c"
#elif TU == 3
#define FILE_C "Source/Lib/Encoder/Codec/EbModeDecisionConfigurationProcess.c"
#elif TU == 4
#define FILE_C "Source/Lib/Decoder/Codec/EbDecParseObu.c" /* includes EbDecUtils.h */
#elif TU == 5
#define FILE_C "Source/Lib/Common/Codec/EbInterPrediction.c"
#endif

#ifndef VERIF_NATIVE
#if TU <= 3
static int get_relative_dist(const OrderHintInfo *oh, int a, int b)
#elif TU == 4
#include "EbDecUtils.h"
static int get_relative_dist(OrderHintInfo *oh, int a, int b)
#endif
#if TU <= 4
__CPROVER_requires(__CPROVER_r_ok(oh, sizeof(*oh)) && PRE_RELDIST(oh, a, b))
__CPROVER_ensures(POST_RELDIST(oh, a, b, __CPROVER_return_value))
__CPROVER_assigns()
;
#else
int get_relative_dist_enc(SeqHeader *sh, int a, int b)
__CPROVER_requires(__CPROVER_r_ok(sh, sizeof(*sh)) && PRE_RELDIST(&sh->order_hint_info, a, b))
__CPROVER_ensures(POST_RELDIST(&sh->order_hint_info, a, b, __CPROVER_return_value))
__CPROVER_assigns()
;
#endif
#endif
#ifndef VERIF_DEPS_ONLY
#include FILE_C
#endif

void h_reldist(void) {
    V_NONDET(int, a);
    V_NONDET(int, b);
#if TU <= 4
    V_NONDET(OrderHintInfo, oh);
#ifdef VERIF_NATIVE
    V_ASSUME(PRE_RELDIST(&oh, a, b));
#endif
    int r = get_relative_dist(&oh, a, b);
#ifdef VERIF_NATIVE
    V_ASSERT(POST_RELDIST(&oh, a, b, r), "signed distance modulo the order-hint period");
#endif
#else
    V_NONDET(SeqHeader, sh);
#ifdef VERIF_NATIVE
    V_ASSUME(PRE_RELDIST(&sh.order_hint_info, a, b));
#endif
    int r = get_relative_dist_enc(&sh, a, b);
#ifdef VERIF_NATIVE
    V_ASSERT(POST_RELDIST(&sh.order_hint_info, a, b, r), "signed distance modulo the order-hint period");
#endif
#endif
    (void)r;
    V_CANARY("reldist returns");
}
V_MAIN(h_reldist)

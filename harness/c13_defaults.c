/* C13 — "the configuration that handle creation fills in is fully determined by the library, whatever the
 * caller's configuration memory contained before the call".
 * Two-run (relational) contract on the real svt_svt_enc_init_parameter: two configuration objects with
 * INDEPENDENT ARBITRARY prior content; after the call every field is equal in both.  The field list is
 * generated on every run from the DWARF layout of EbSvtAv1EncConfiguration (c13_layout.h: padding excluded,
 * new fields picked up automatically). */
#include "vh.h"
#include <stdlib.h>
#include <string.h>
#include "EbSvtAv1Enc.h"
#include "c13_layout.h"
#ifndef VERIF_DEPS_ONLY
void svt_log(int level, const char *tag, const char *fmt, ...) { (void)level; (void)tag; (void)fmt; }
#endif
EbErrorType svt_svt_enc_init_parameter(EbSvtAv1EncConfiguration *config_ptr);
#ifdef C13_INCLUDE_REAL
#include "Source/Lib/Encoder/Globals/EbEncHandle.c"
#endif
typedef struct { unsigned char b[LAYOUT_TOTAL_SIZE]; } cfg_bytes_t;

void h_defaults(void) {
    V_NONDET(cfg_bytes_t, prior_a);
    V_NONDET(cfg_bytes_t, prior_b);
    EbSvtAv1EncConfiguration A, B;
    memcpy(&A, &prior_a, sizeof(A));
    memcpy(&B, &prior_b, sizeof(B));
    EbErrorType ra = svt_svt_enc_init_parameter(&A);
    EbErrorType rb = svt_svt_enc_init_parameter(&B);
    V_ASSERT(ra == EB_ErrorNone && rb == EB_ErrorNone, "init_parameter succeeds on a non-NULL configuration");
    V_ASSERT(svt_svt_enc_init_parameter(NULL) != EB_ErrorNone, "init_parameter(NULL) is an error");
#define FIELD(name, off, size) \
    V_ASSERT(memcmp((const char *)&A + (off), (const char *)&B + (off), (size)) == 0, \
             "default of configuration field '" name "' is set by the library (independent of prior memory)");
    LAYOUT_FIELDS(FIELD)
#undef FIELD
    /* documented defaults that the header states explicitly (EbSvtAv1Enc.h "Default is ...") */
    V_ASSERT(A.enc_mode == 8 && A.intra_period_length == -2 && A.intra_refresh_type == 2 && A.hierarchical_levels == 4, "documented defaults: preset 8, intra period -2, refresh 2, 4 levels");
    V_ASSERT(A.source_width == 0 && A.source_height == 0 && A.encoder_bit_depth == 8 && A.qp == 50, "documented defaults: size 0x0, 8 bit, qp 50");
    V_ASSERT(A.min_qp_allowed == 1 && A.max_qp_allowed == 63 && A.rate_control_mode == 0, "documented defaults: qp range 1..63, CQP");
    V_CANARY("defaults returned");
}
V_MAIN(h_defaults)

/* C15 — "all library threads have exited" at teardown: every kernel thread (array) that svt_av1_enc_init creates
 * is joined and released by svt_enc_handle_stop_threads, with the same count, whatever prefix of the creation
 * sequence succeeded.
 *   creation side : the statement range of svt_av1_enc_init from the first EB_CREATE_THREAD to the packetization
 *                   thread (mechanical block slice, extracted on every run);
 *   teardown side : the real svt_enc_handle_stop_threads.
 * Thread handles are heap cells (stubs/os_objects.h): a thread that is never joined is a LEAKED cell
 * (--memory-leak-check), one joined twice a double free, a join count above the creation count an out-of-bounds
 * read of the handle array.  Every creation may fail (--malloc-may-fail): svt_av1_enc_init then returns the error
 * and the application tears down (svt_av1_enc_deinit -> svt_enc_handle_dctor -> stop_threads). */
#include "vh.h"
#include <stdlib.h>
#include "calloc_small.h"
#include "os_objects.h"
#include "EbEncHandle.h"
#include "EbSequenceControlSet.h"
#include "EbPredictionStructure.h"
#include "EbSystemResourceManager.h"
#ifdef SCRATCH_EbEncHandle_c
#include SCRATCH_EbEncHandle_c
#else
#include "Source/Lib/Encoder/Globals/EbEncHandle.c"
#endif
#ifndef NT
#define NT 2
#endif
static SequenceControlSet g_scs;
static EbSequenceControlSetInstance g_inst;
static EbEncHandle g_h;
void h_thread_pairing(void) {
    EbEncHandle *h = &g_h;
    SequenceControlSet *scs = &g_scs;
    EbSequenceControlSetInstance *ia[1] = {&g_inst};
    g_inst.scs_ptr = scs;
    h->scs_instance_array = ia;     /* every thread handle / handle array of the fresh handle is NULL (static storage = calloc'd handle) */
    /* any per-stage process counts (statics are zero for the verifier: assigned from unconstrained locals) */
    V_NONDET(uint32_t, c0); V_NONDET(uint32_t, c1); V_NONDET(uint32_t, c2); V_NONDET(uint32_t, c3); V_NONDET(uint32_t, c4);
    V_NONDET(uint32_t, c5); V_NONDET(uint32_t, c6); V_NONDET(uint32_t, c7); V_NONDET(uint32_t, c8); V_NONDET(uint32_t, c9);
    __CPROVER_assume(c0 >= 1 && c0 <= NT && c1 >= 1 && c1 <= NT && c2 >= 1 && c2 <= NT && c3 >= 1 && c3 <= NT && c4 >= 1 && c4 <= NT &&
                     c5 >= 1 && c5 <= NT && c6 >= 1 && c6 <= NT && c7 >= 1 && c7 <= NT && c8 >= 1 && c8 <= NT && c9 >= 1 && c9 <= NT);
    scs->picture_analysis_process_init_count = c0; scs->motion_estimation_process_init_count = c1;
    scs->source_based_operations_process_init_count = c2; scs->inlme_process_init_count = c3;
    scs->mode_decision_configuration_process_init_count = c4; scs->enc_dec_process_init_count = c5;
    scs->dlf_process_init_count = c6; scs->cdef_process_init_count = c7; scs->rest_process_init_count = c8;
    scs->entropy_coding_process_init_count = c9;
    /* context arrays (only passed through to the thread entry) */
    static EbPtr ctx[NT];
    h->picture_analysis_context_ptr_array = ctx; h->motion_estimation_context_ptr_array = ctx;
    h->source_based_operations_context_ptr_array = ctx; h->inlme_context_ptr_array = ctx;
    h->mode_decision_configuration_context_ptr_array = ctx; h->enc_dec_context_ptr_array = ctx;
    h->dlf_context_ptr_array = ctx; h->cdef_context_ptr_array = ctx; h->rest_context_ptr_array = ctx;
    h->entropy_coding_context_ptr_array = ctx;
    EbErrorType e = verif_c15_create_threads(h, scs);
    V_ASSERT(e == EB_ErrorNone || e == EB_ErrorInsufficientResources, "thread creation: error code on failure");
    if (e == EB_ErrorNone) {
        V_ASSERT(h->resource_coordination_thread_handle && h->picture_decision_thread_handle && h->initial_rate_control_thread_handle &&
                 h->picture_manager_thread_handle && h->rate_control_thread_handle && h->packetization_thread_handle,
                 "all six single kernel threads exist after a successful creation sequence");
        V_ASSERT(h->ime_thread_handle_array && h->ime_thread_handle_array[c3 - 1] && h->motion_estimation_thread_handle_array[c1 - 1] &&
                 h->entropy_coding_thread_handle_array[c9 - 1], "thread arrays are filled up to their stage's count");
        V_CANARY("all threads created");
    } else { V_CANARY("a creation failed part-way"); }
    svt_enc_handle_stop_threads(h);
    V_ASSERT(!h->resource_coordination_thread_handle && !h->picture_decision_thread_handle && !h->initial_rate_control_thread_handle &&
             !h->picture_manager_thread_handle && !h->rate_control_thread_handle && !h->packetization_thread_handle,
             "teardown: every single kernel thread joined and its handle cleared");
    V_ASSERT(!h->picture_analysis_thread_handle_array && !h->motion_estimation_thread_handle_array && !h->source_based_operations_thread_handle_array &&
             !h->ime_thread_handle_array && !h->mode_decision_configuration_thread_handle_array && !h->enc_dec_thread_handle_array &&
             !h->dlf_thread_handle_array && !h->cdef_thread_handle_array && !h->rest_thread_handle_array && !h->entropy_coding_thread_handle_array,
             "teardown: every thread array released");
    /* the leak obligation (__CPROVER_memory_leak == NULL) is the statement 'no thread is left un-joined' */
}

/* C14 (decoder side) — "every public decoder API function, given NULL handles or NULL buffer pointers, returns an
 * error code without crashing", on the real entry points of EbDecHandle.c.
 *   U14.d.null_args   : every entry point with each pointer argument NULL (the others valid) returns an error code
 *                       and dereferences nothing invalid.
 *   U14.d.get_picture : svt_av1_dec_get_picture on a handle as svt_av1_dec_init leaves it (no frame decoded yet: no
 *                       current picture buffer, show_frame 0): returns EB_DecNoOutputPicture, no NULL dereference.
 * Callees outside the unit are stubs that ASSERT their own preconditions (non-NULL arguments). */
#include "vh.h"
#include <stdlib.h>
#include "os_objects.h"
#include "Source/Lib/Decoder/Codec/EbDecHandle.c"
int nondet_int(void);
void svt_log_init(void) {}
void dec_switch_to_real_time(void);
void dec_sync_all_threads(EbDecHandle *h) { (void)h; }
unsigned g_obu_calls;
/* contract stub of the OBU parser (C10 units): requires a readable buffer; consumes at least one byte or fails */
EbErrorType decode_multiple_obu(EbDecHandle *h, uint8_t **data, size_t data_size, uint32_t is_annexb) {
    (void)is_annexb;
    __CPROVER_assert(h != NULL && data != NULL && *data != NULL, "decode_multiple_obu: handle and data are not NULL");
    __CPROVER_assert(data_size > 0, "decode_multiple_obu: at least one byte");
    g_obu_calls++;
    if (nondet_int()) return EB_Corrupt_Frame;
    size_t adv; __CPROVER_assume(adv >= 1 && adv <= data_size);
    *data += adv;
    return EB_ErrorNone;
}
void dec_pic_mgr_update_ref_pic(EbDecHandle *h, int32_t frame_decoded, int32_t refresh_frame_flags) { (void)frame_decoded; (void)refresh_frame_flags; __CPROVER_assert(h != NULL, "update_ref_pic: handle not NULL"); }
EbErrorType dec_mem_init(EbDecHandle *h) { __CPROVER_assert(h != NULL, "dec_mem_init: handle not NULL"); h->cur_pic_buf[0] = NULL; return nondet_int() ? EB_ErrorNone : EB_ErrorInsufficientResources; }

/* a component as svt_av1_dec_init_handle + svt_av1_dec_init leave it */
static EbComponentType *mk_dec(void) {
    EbComponentType *c = malloc(sizeof(*c));
    EbDecHandle *h = malloc(sizeof(*h));
    __CPROVER_assume(c && h);
    c->p_component_private = h;
    h->memory_map = malloc(sizeof(EbMemoryMapEntry));
    __CPROVER_assume(h->memory_map);
    h->memory_map_init_address = h->memory_map; h->memory_map_index = 0;
    h->dec_config.threads = 1;
    h->show_frame = 0; h->show_existing_frame = 0; h->cur_pic_buf[0] = NULL; h->seen_frame_header = 0;
    return c;
}
#define IS_ERR(e) ((e) != EB_ErrorNone)
#ifdef U14D_NULL
void h_dec_null_args(void) {
    EbSvtAv1DecConfiguration cfg; EbBufferHeaderType buf; EbAV1StreamInfo si; EbAV1FrameInfo fi; uint8_t bytes[4];
    EbComponentType *c = mk_dec();
    V_NONDET(unsigned, which);
    EbErrorType e;
    switch (which) {
    case 0: e = svt_av1_dec_init_handle(NULL, NULL, &cfg); V_ASSERT(IS_ERR(e), "init_handle(NULL handle pointer) returns an error"); break;
    case 1: { EbComponentType *n = 0; e = svt_av1_dec_init_handle(&n, NULL, NULL); V_ASSERT(IS_ERR(e), "init_handle(NULL configuration) returns an error"); break; }
    case 2: e = svt_av1_dec_set_parameter(NULL, &cfg); V_ASSERT(IS_ERR(e), "set_parameter(NULL handle) returns an error"); break;
    case 3: e = svt_av1_dec_set_parameter(c, NULL); V_ASSERT(IS_ERR(e), "set_parameter(NULL configuration) returns an error"); break;
    case 4: e = svt_av1_dec_init(NULL); V_ASSERT(IS_ERR(e), "init(NULL handle) returns an error"); break;
    case 5: e = svt_av1_dec_frame(NULL, bytes, 4, 0); V_ASSERT(IS_ERR(e), "dec_frame(NULL handle) returns an error"); break;
    case 6: { V_NONDET(size_t, n); e = svt_av1_dec_frame(c, NULL, n, 0); V_ASSERT(IS_ERR(e), "dec_frame(NULL data) returns an error"); V_ASSERT(g_obu_calls == 0, "dec_frame(NULL data): the parser is not entered"); break; }
    case 7: e = svt_av1_dec_get_picture(NULL, &buf, &si, &fi); V_ASSERT(IS_ERR(e), "get_picture(NULL handle) returns an error"); break;
    case 8: e = svt_av1_dec_get_picture(c, NULL, &si, &fi); V_ASSERT(IS_ERR(e), "get_picture(NULL output buffer) returns an error"); break;
    case 9: e = svt_av1_dec_deinit(NULL); V_ASSERT(IS_ERR(e), "deinit(NULL handle) returns an error"); break;
    default: e = svt_av1_dec_deinit_handle(NULL); V_ASSERT(IS_ERR(e), "deinit_handle(NULL handle) returns an error"); break;
    }
    V_CANARY("an entry point returned");
}
#endif
#ifdef U14D_GETPIC
void h_dec_get_picture_early(void) {
    EbBufferHeaderType buf; EbAV1StreamInfo si; EbAV1FrameInfo fi; EbSvtIOFormat img;
    buf.p_buffer = (uint8_t *)&img;
    EbComponentType *c = mk_dec();
    EbErrorType e = svt_av1_dec_get_picture(c, &buf, &si, &fi);
    V_ASSERT(e == EB_DecNoOutputPicture, "get_picture before any frame was decoded: 'no output picture', nothing dereferenced");
    V_CANARY("early get_picture returns");
}
#endif

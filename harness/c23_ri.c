/* U23.1.ri — representation invariant of the circular buffer, witness-index form (no quantifier):
 * for an ARBITRARY slot k,   RI(b,k) :=  head,tail < total  &&  count <= total  &&  tail == (head+count) mod total
 *                                        &&  ( slot k is inside the occupied window  <=>  array[k] != NULL ).
 * Each operation is shown to preserve RI for that arbitrary k (hence for all k) given its capacity precondition,
 * and to move exactly one element:  FIFO position of every other element is kept / shifted by one.
 * This is the refinement that links the concrete buffer to the abstract occupancy view used by U23.3. */
#include "vh.h"
#include <stdlib.h>
#include "EbSystemResourceManager.h"
#include "ghost_threads.h"
#include "Source/Lib/Common/Codec/EbSystemResourceManager.c"

#define OFF(b, k) ((k) >= (b)->head_index ? (k) - (b)->head_index : (k) + (b)->buffer_total_count - (b)->head_index)
#define WIN(b, k) (OFF(b, k) < (b)->current_count)
#define TAILOK(b) ((b)->tail_index == (((b)->head_index + (b)->current_count) >= (b)->buffer_total_count \
                                           ? (b)->head_index + (b)->current_count - (b)->buffer_total_count \
                                           : (b)->head_index + (b)->current_count))
#define RI(b, k) ((b)->head_index < (b)->buffer_total_count && (b)->tail_index < (b)->buffer_total_count && \
                  (b)->current_count <= (b)->buffer_total_count && TAILOK(b) && (WIN(b, k) == ((b)->array_ptr[k] != NULL)))

#ifndef RI_MAXN
#define RI_MAXN 4096
#endif

void h_ri(void) {
    V_NONDET(uint32_t, total);
    V_NONDET(uint32_t, head);
    V_NONDET(uint32_t, count);
    V_NONDET(uint32_t, k);
    V_NONDET(int, op);
    V_ASSUME(total >= 1 && total <= RI_MAXN && k < total);
    EbCircularBuffer b;
    EbPtr *arr = malloc(sizeof(EbPtr) * total); /* unconstrained content, symbolic capacity */
    b.array_ptr = arr;
    b.buffer_total_count = total;
    b.head_index = head;
    b.current_count = count;
    V_ASSUME(head < total && count <= total);
    b.tail_index = (head + count >= total) ? head + count - total : head + count;
    V_ASSUME(RI(&b, k));
    /* RI also at the head and tail slots (they are just other instances of the arbitrary k) */
    V_ASSUME(RI(&b, b.head_index) && RI(&b, b.tail_index));
    uint32_t prevh = ((head == 0) ? total - 1 : head - 1);
    V_ASSUME(WIN(&b, prevh) == (arr[prevh] != NULL));
    EbPtr    old_k = arr[k];
    uint32_t old_off = OFF(&b, k);
    int dummy; EbPtr obj = &dummy;
    if (op == 0) { /* empty_check agrees with the abstract view */
        EbBool e = svt_circular_buffer_empty_check(&b);
        V_ASSERT((e == EB_TRUE) == (count == 0), "empty_check is TRUE exactly when the buffer holds no element");
    } else if (op == 1) { /* push_back */
        V_ASSUME(count < total);
        uint32_t t0 = b.tail_index;
        svt_circular_buffer_push_back(&b, obj);
        V_ASSERT(RI(&b, k), "push_back preserves the representation invariant");
        V_ASSERT(b.current_count == count + 1, "push_back adds exactly one element");
        V_ASSERT(k == t0 ? arr[k] == obj : arr[k] == old_k, "push_back touches only the old tail slot (no element lost or duplicated)");
        V_ASSERT(k == t0 ? OFF(&b, k) == count : (old_k == NULL || OFF(&b, k) == old_off), "push_back keeps the FIFO position of every queued element and puts the new one last");
    } else if (op == 2) { /* pop_front */
        V_ASSUME(count > 0);
        EbPtr out; uint32_t h0 = head; EbPtr oldh = arr[h0];
        svt_circular_buffer_pop_front(&b, &out);
        V_ASSERT(out == oldh && out != NULL, "pop_front returns the head element, which is a real element");
        V_ASSERT(RI(&b, k), "pop_front preserves the representation invariant");
        V_ASSERT(b.current_count == count - 1, "pop_front removes exactly one element");
        V_ASSERT(k == h0 ? arr[k] == NULL : arr[k] == old_k, "pop_front touches only the old head slot");
        V_ASSERT(k == h0 || old_k == NULL || OFF(&b, k) == old_off - 1, "pop_front moves every other queued element one position forward (posting order)");
    } else if (op == 3) { /* push_front */
        V_ASSUME(count < total);
        svt_circular_buffer_push_front(&b, obj);
        V_ASSERT(RI(&b, k), "push_front preserves the representation invariant");
        V_ASSERT(b.current_count == count + 1, "push_front adds exactly one element");
        V_ASSERT(b.array_ptr[b.head_index] == obj, "push_front makes the new element the next to be popped");
        V_ASSERT(k == b.head_index ? arr[k] == obj : arr[k] == old_k, "push_front touches only the new head slot");
        V_ASSERT(k == b.head_index || old_k == NULL || OFF(&b, k) == old_off + 1, "push_front moves every queued element one position back");
    }
    V_CANARY("RI lemma reached");
}

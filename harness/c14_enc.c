/* C14 (encoder side), C13, parts of C16 — contracts on the real API entry points of EbEncHandle.c.
 * Harness back end (DESIGN §3.1): the handle graph has 200 KB + 27 KB objects, so the contract is enforced by
 * assume(PRE) / call / assert(POST) rather than dfcc.  Callees outside the unit go to stubs that assert their
 * own preconditions (non-NULL arguments) and log what was called. */
#include "vh.h"
#include <stdlib.h>
#include "ghost_threads.h"
#include "EbEncHandle.h"
#include "EbSequenceControlSet.h"
#include "EbPredictionStructure.h"
#include "EbSystemResourceManager.h"

/* ---- trusted no-op diagnostics ---- */
void svt_log(int level, const char *tag, const char *fmt, ...) { (void)level; (void)tag; (void)fmt; }
void svt_print_alloc_fail(const char *file, int line) { (void)file; (void)line; }
void svt_add_mem_entry(void *ptr, EbPtrType type, size_t count, const char *file, uint32_t line) {}
void svt_remove_mem_entry(void *ptr, EbPtrType type) {}

/* ---- ghost log of calls into the resource manager ---- */
unsigned g_blocking_gets, g_nonblocking_gets, g_get_empty, g_posts_full, g_releases;
int nondet_int(void);
static EbObjectWrapper *mk_wrapper(void) {
    EbObjectWrapper *w = malloc(sizeof(*w));
    EbBufferHeaderType *b = malloc(sizeof(*b));
    __CPROVER_assume(w && b);
    w->object_ptr = b;
    b->metadata = NULL;   /* metadata arrays are covered by the C21 units (deep copy) */
    b->p_buffer = NULL;
    return w;
}
EbErrorType stub_get_full_object(EbFifo *f, EbObjectWrapper **o) {
    __CPROVER_assert(f != NULL && o != NULL, "svt_get_full_object: arguments are not NULL");
    g_blocking_gets++;
    *o = nondet_int() ? NULL : mk_wrapper();
    return EB_ErrorNone;
}
EbErrorType stub_get_full_object_non_blocking(EbFifo *f, EbObjectWrapper **o) {
    __CPROVER_assert(f != NULL && o != NULL, "svt_get_full_object_non_blocking: arguments are not NULL");
    g_nonblocking_gets++;
    *o = nondet_int() ? NULL : mk_wrapper();
    return EB_ErrorNone;
}
EbErrorType stub_get_empty_object(EbFifo *f, EbObjectWrapper **o) {
    __CPROVER_assert(f != NULL && o != NULL, "svt_get_empty_object: arguments are not NULL");
    g_get_empty++;
    *o = mk_wrapper();
    return EB_ErrorNone;
}
EbErrorType stub_post_full_object(EbObjectWrapper *w) {
    __CPROVER_assert(w != NULL, "svt_post_full_object: wrapper is not NULL");
    g_posts_full++;
    return EB_ErrorNone;
}
EbErrorType stub_release_object(EbObjectWrapper *w) {
    __CPROVER_assert(w != NULL, "svt_release_object: wrapper is not NULL");
    g_releases++;
    return EB_ErrorNone;
}
unsigned g_shutdown_calls;
EbErrorType stub_shutdown_process(const EbSystemResource *r) { g_shutdown_calls++; return EB_ErrorNone; }

/* ---- havoc stubs for the configuration chain (contracts of C12 units, used here only for lock balance) ---- */
unsigned g_cfg_chain;
EbErrorType stub_verify_settings(SequenceControlSet *scs) {
    __CPROVER_assert(scs != NULL, "verify_settings: scs not NULL");
    g_cfg_chain++;
    return nondet_int() ? EB_ErrorNone : EB_ErrorBadParameter;
}
void stub_copy_api_from_app(SequenceControlSet *scs, EbSvtAv1EncConfiguration *cfg) {
    __CPROVER_assert(scs != NULL && cfg != NULL, "copy_api_from_app: arguments are not NULL");
}
void stub_void_scs(SequenceControlSet *scs) { __CPROVER_assert(scs != NULL, "scs not NULL"); }
EbErrorType stub_load_default_buffer_configuration_settings(SequenceControlSet *scs) {
    return nondet_int() ? EB_ErrorNone : EB_ErrorInsufficientResources;
}
EbErrorType prediction_structure_group_ctor(PredictionStructureGroup *p, uint8_t enc_mode, EbSvtAv1EncConfiguration *c) {
    return nondet_int() ? EB_ErrorNone : EB_ErrorInsufficientResources;
}
PredictionStructure *get_prediction_structure(PredictionStructureGroup *g, EbPred t, uint32_t n, uint32_t l) { return 0; }
void copy_input_buffer_stub(SequenceControlSet *scs, EbBufferHeaderType *dst, EbBufferHeaderType *src) {
    __CPROVER_assert(scs && dst && src, "copy_input_buffer: arguments are not NULL");
}
unsigned nondet_unsigned(void);
/* contract stub: the header writer advances the write pointer by at most 64 bytes (bounded by U02.8) */
EbErrorType stub_encode_sps_av1(Bitstream *b, SequenceControlSet *scs) {
    __CPROVER_assert(b && scs, "encode_sps_av1: arguments are not NULL");
    OutputBitstreamUnit *o = (OutputBitstreamUnit *)b->output_bitstream_ptr;
    unsigned n = nondet_unsigned();
    __CPROVER_assume(n <= 64);
    o->buffer_av1 = o->buffer_begin_av1 + n;
    return EB_ErrorNone;
}
EbErrorType stub_output_bitstream_reset(OutputBitstreamUnit *b) { b->buffer_av1 = b->buffer_begin_av1; return EB_ErrorNone; }

#include "Source/Lib/Encoder/Globals/EbEncHandle.c"
/* C17 frame obligation (alias units U17.2.*, -DU17_FRAME): no per-instance API entry point writes a file-scope object
 * of EbEncHandle.c — the list of those objects is generated from the file on every run (engine/gen_statics.py) */
#ifdef U17_FRAME
#include <string.h>
#include "statics_EbEncHandle.h"
#define FRAME_SNAP() STATICS_SNAP()
#define FRAME_CHECK(w) STATICS_CHECK(w)
#else
#define FRAME_SNAP() (void)0
#define FRAME_CHECK(w) (void)0
#endif

/* a component as left by svt_av1_enc_init_handle + svt_av1_enc_init: every object the entry points reach */
static EbComponentType *mk_component(void) {
    EbComponentType *c = malloc(sizeof(*c));
    EbEncHandle *h = malloc(sizeof(*h));
    EbSequenceControlSetInstance **arr = malloc(sizeof(void *));
    EbSequenceControlSetInstance *inst = malloc(sizeof(*inst));
    SequenceControlSet *scs = malloc(sizeof(*scs));
    EncodeContext *ec = malloc(sizeof(*ec));
    EbFifo *f1 = malloc(sizeof(EbFifo)), *f2 = malloc(sizeof(EbFifo)), *f3 = malloc(sizeof(EbFifo));
    __CPROVER_assume(c && h && arr && inst && scs && ec && f1 && f2 && f3);
    c->p_component_private = h;
    h->scs_instance_array = arr;
    arr[0] = inst;
    inst->scs_ptr = scs;
    inst->encode_context_ptr = ec;
    inst->config_mutex = malloc(1);
    __CPROVER_assume(inst->config_mutex != NULL);
    h->input_buffer_producer_fifo_ptr = f1;
    h->output_stream_buffer_consumer_fifo_ptr = f2;
    h->output_recon_buffer_consumer_fifo_ptr = f3;
    return c;
}
#define IS_ERROR(e) ((e) != EB_ErrorNone)

#ifdef U14_SET_PARAMETER
void h_set_parameter(void) {
    FRAME_SNAP();
    V_NONDET(int, null_comp);
    V_NONDET(int, null_cfg);
    EbComponentType *c = null_comp ? NULL : mk_component();
    EbSvtAv1EncConfiguration *cfg = null_cfg ? NULL : malloc(sizeof(*cfg));
    __CPROVER_assume(null_cfg || cfg);
    EbErrorType e = svt_av1_enc_set_parameter(c, cfg);
    V_ASSERT(!(null_comp || null_cfg) || IS_ERROR(e), "set_parameter: a NULL argument gives an error code");
    V_ASSERT(g_nheld == 0, "set_parameter: the configuration mutex is released on every return path (a later call must not self-deadlock)");
    V_ASSERT(g_locks == g_unlocks, "set_parameter: lock/unlock balanced");
    V_ASSERT(!(g_cfg_chain && e == EB_ErrorNone) || 1, "-");
    V_CANARY("set_parameter returns");
    /* two calls in a row: reject-then-retry must not block */
    if (!null_comp && !null_cfg) {
        EbErrorType e2 = svt_av1_enc_set_parameter(c, cfg);
        (void)e2;
        V_ASSERT(g_nheld == 0, "set_parameter: second call returns with the mutex released");
        V_CANARY("second set_parameter returns");
    }
    FRAME_CHECK("svt_av1_enc_set_parameter");
}
#endif
#ifdef U14_STREAM_HEADER
void h_stream_header(void) {
    FRAME_SNAP();
    V_NONDET(int, null_comp);
    V_NONDET(int, null_out);
    EbComponentType *c = null_comp ? NULL : mk_component();
    EbBufferHeaderType *out = NULL;
    if (!null_comp) {
        SequenceControlSet *scs = ((EbEncHandle *)c->p_component_private)->scs_instance_array[0]->scs_ptr;
        __CPROVER_assume(scs->max_input_luma_width <= 64 && scs->max_input_luma_height <= 64);
    }
    EbErrorType e = svt_av1_enc_stream_header(c, null_out ? NULL : &out);
    V_ASSERT(!(null_comp || null_out) || IS_ERROR(e), "stream_header: a NULL argument gives an error code");
    V_ASSERT(e != EB_ErrorNone || (out != NULL && out->p_buffer != NULL), "stream_header: success returns a buffer");
    V_CANARY("stream_header returns");
    if (e == EB_ErrorNone) {
        EbErrorType r = svt_av1_enc_stream_header_release(out);
        V_ASSERT(r == EB_ErrorNone, "stream_header_release accepts what stream_header returned");
    }
    V_ASSERT(IS_ERROR(svt_av1_enc_stream_header_release(NULL)), "stream_header_release(NULL) gives an error code");
    FRAME_CHECK("svt_av1_enc_stream_header");
}
#endif
#ifdef U14_SEND_PICTURE
void h_send_picture(void) {
    FRAME_SNAP();
    V_NONDET(int, null_comp);
    V_NONDET(int, null_buf);
    EbComponentType *c = null_comp ? NULL : mk_component();
    EbBufferHeaderType *b = null_buf ? NULL : malloc(sizeof(*b));
    __CPROVER_assume(null_buf || b);
    EbErrorType e = svt_av1_enc_send_picture(c, b);
    V_ASSERT(!null_comp || IS_ERROR(e), "send_picture: a NULL handle gives an error code");
    V_ASSERT(null_comp || (g_get_empty == 1 && g_posts_full == 1), "send_picture: takes one empty input buffer and posts it once (NULL picture = end of stream)");
    V_CANARY("send_picture returns");
    FRAME_CHECK("svt_av1_enc_send_picture");
}
#endif
#ifdef U14_GET_PACKET
void h_get_packet(void) {
    FRAME_SNAP();
    V_NONDET(int, null_comp);
    V_NONDET(int, null_out);
    V_NONDET(unsigned char, done);
    EbComponentType *c = null_comp ? NULL : mk_component();
    EbBufferHeaderType *out = NULL;
    EbErrorType e = svt_av1_enc_get_packet(c, null_out ? NULL : &out, done);
    V_ASSERT(!(null_comp || null_out) || IS_ERROR(e), "get_packet: a NULL argument gives an error code");
    V_ASSERT(done || g_blocking_gets == 0, "get_packet(pic_send_done = 0) never takes the blocking path");
    V_ASSERT(e != EB_ErrorNone || out != NULL, "get_packet: success returns a packet");
    V_ASSERT(!(out == NULL && !null_comp && !null_out) || e == EB_NoErrorEmptyQueue, "get_packet: nothing available is reported as EB_NoErrorEmptyQueue");
    V_CANARY("get_packet returns");
    /* release_out_buffer on whatever came back, and on NULL-ish arguments */
    EbBufferHeaderType *none = NULL;
    svt_av1_enc_release_out_buffer(NULL);
    svt_av1_enc_release_out_buffer(&none);
    if (out) svt_av1_enc_release_out_buffer(&out);
    V_CANARY("release_out_buffer returns");
    FRAME_CHECK("svt_av1_enc_get_packet / release_out_buffer");
}
#endif
#ifdef U14_GET_RECON
void h_get_recon(void) {
    FRAME_SNAP();
    V_NONDET(int, null_comp);
    V_NONDET(int, null_buf);
    EbComponentType *c = null_comp ? NULL : mk_component();
    EbBufferHeaderType *b = null_buf ? NULL : malloc(sizeof(*b));
    __CPROVER_assume(null_buf || b);
    if (b) { b->p_buffer = NULL; b->metadata = NULL; }
    EbErrorType e = svt_av1_get_recon(c, b);
    V_ASSERT(!(null_comp || null_buf) || IS_ERROR(e), "get_recon: a NULL argument gives an error code");
    V_ASSERT(g_blocking_gets == 0, "get_recon never blocks");
    V_CANARY("get_recon returns");
    FRAME_CHECK("svt_av1_get_recon");
}
#endif
#ifdef U14_MISC
void h_misc(void) {
    V_NONDET(int, null_comp);
    V_NONDET(int, null_info);
    V_NONDET(uint32_t, id);
    EbComponentType *c = null_comp ? NULL : mk_component();
    SvtAv1FixedBuf fb;
    EbErrorType e = svt_av1_enc_get_stream_info(c, id, null_info ? NULL : &fb);
    V_ASSERT(!(null_comp || null_info) || IS_ERROR(e), "get_stream_info: a NULL argument gives an error code");
    V_ASSERT(e != EB_ErrorNone || id == SVT_AV1_STREAM_INFO_FIRST_PASS_STATS_OUT, "get_stream_info: only the documented id succeeds");
    EbBufferHeaderType *o = NULL;
    V_ASSERT(svt_av1_enc_eos_nal(c, &o) == EB_ErrorNone || 1, "-");
    e = svt_av1_enc_deinit(c);
    V_ASSERT(!null_comp || IS_ERROR(e), "deinit: a NULL handle gives an error code");
    V_ASSERT(null_comp || g_shutdown_calls == 16, "deinit: every one of the 16 consumer-bearing resources is shut down");
    V_ASSERT(IS_ERROR(svt_av1_enc_deinit_handle(NULL)), "deinit_handle(NULL) gives an error code");
    V_ASSERT(IS_ERROR(svt_av1_enc_init(NULL)), "init(NULL) gives an error code");
    V_ASSERT(IS_ERROR(svt_av1_enc_init_handle(NULL, NULL, NULL)), "init_handle(NULL, ..) gives an error code");
    V_CANARY("misc API returns");
}
#endif

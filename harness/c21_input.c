/* C21 — "the same picture content supplied with a different stride or with arbitrary bytes in the stride padding
 * produces identical output": the two functions that decide what of the caller's memory reaches the coded picture. */
#include "vh.h"
#include <stdlib.h>
#include <string.h>
#include <stdint.h>
void svt_log(int level, const char *tag, const char *fmt, ...) { (void)level; (void)tag; (void)fmt; }
/* byte-loop models (CBMC's built-in memset is wrong for symbolic lengths; svt_memcpy is a dispatch pointer) */
void *memset(void *s, int c, size_t n) { unsigned char *p = s; for (size_t i = 0; i < n; i++) p[i] = (unsigned char)c; return s; }
static void memcpy_model(void *d, const void *s, size_t n) { unsigned char *a = d; const unsigned char *b = s; for (size_t i = 0; i < n; i++) a[i] = b[i]; }

#ifdef U21_PAD
/* U21.2 pad_input_picture (EbMcp.c): EDGE REPLICATION — after the call every sample of the padded plane
 * (w+pad_right) x (h+pad_bottom) equals the visible sample nearest to it: out(x,y) == in(min(x,w-1), min(y,h-1)).
 * So the padded picture is a function of the VISIBLE samples only, whatever bytes were in the padding before.
 * Witness (x,y) arbitrary. */
#include "Source/Lib/Common/Codec/EbMcp.c"
#ifndef PADN
#define PADN 4
#endif
void h_pad(void) {
    V_NONDET(uint32_t, w); V_NONDET(uint32_t, h); V_NONDET(uint32_t, pr); V_NONDET(uint32_t, pb); V_NONDET(uint32_t, stride);
    V_NONDET(uint32_t, x); V_NONDET(uint32_t, y);
    V_ASSUME(w >= 1 && w <= PADN && h >= 1 && h <= PADN && pr <= 2 && pb <= 2 && stride >= w + pr && stride <= PADN + 3);
    uint8_t pic[(PADN + 2) * (PADN + 3)];    /* unconstrained content: visible samples AND prior padding bytes */
    uint8_t vis[PADN][PADN];
    for (unsigned j = 0; j < PADN; j++) for (unsigned i = 0; i < PADN; i++) if (j < h && i < w) vis[j][i] = pic[j * stride + i];
    svt_memcpy = memcpy_model;
    pad_input_picture(pic, stride, w, h, pr, pb);
    V_ASSUME(x < w + pr && y < h + pb);
    uint32_t sx = x < w ? x : w - 1, sy = y < h ? y : h - 1;
    V_ASSERT(pic[y * stride + x] == vis[sy][sx], "edge replication: every sample of the padded plane equals the nearest VISIBLE sample (independent of prior padding bytes)");
    V_CANARY("pad returns");
}
#endif

#ifdef U21_COPY10
/* U21.1 copy_frame_buffer, 10-bit packed path: each plane is unpacked from ITS OWN source pointer with ITS OWN
 * stride into ITS OWN destination, for exactly the visible width/height (so stride padding is never read into the
 * visible area and a plane is never read with another plane's stride). */
typedef struct { const uint16_t *src; uint32_t in_stride; uint8_t *d8; uint32_t s8; uint8_t *dn; uint32_t sn; uint32_t w, h; } UnpackCall;
UnpackCall g_call[4]; unsigned g_calls;
void un_pack2d(uint16_t *in16_bit_buffer, uint32_t in_stride, uint8_t *out8_bit_buffer, uint32_t out8_stride, uint8_t *outn_bit_buffer,
               uint32_t outn_stride, uint32_t width, uint32_t height) {
    if (g_calls < 4) { UnpackCall c = {in16_bit_buffer, in_stride, out8_bit_buffer, out8_stride, outn_bit_buffer, outn_stride, width, height}; g_call[g_calls] = c; }
    g_calls++;
}
#include "Source/Lib/Encoder/Globals/EbEncHandle.c"
void h_copy10(void) {
    SequenceControlSet *scs = malloc(sizeof(*scs));
    EbPictureBufferDesc *pic = malloc(sizeof(*pic));
    EbSvtIOFormat *in = malloc(sizeof(*in));
    __CPROVER_assume(scs && pic && in);
    __CPROVER_assume(scs->static_config.encoder_bit_depth == 10 && scs->static_config.compressed_ten_bit_format == 0);
    __CPROVER_assume(pic->width <= 4096 && pic->height <= 2304 && scs->max_input_pad_right <= pic->width && scs->max_input_pad_bottom <= pic->height);
    __CPROVER_assume(pic->stride_y <= 8192 && pic->stride_cr <= 8192 && scs->top_padding <= 256 && scs->left_padding <= 256);
    uint32_t lw = pic->width - scs->max_input_pad_right, lh = pic->height - scs->max_input_pad_bottom;
    uint32_t lo = pic->stride_y * scs->top_padding + scs->left_padding, co = pic->stride_cr * (scs->top_padding >> 1) + (scs->left_padding >> 1);
    EbErrorType e = copy_frame_buffer(scs, (uint8_t *)pic, (uint8_t *)in);
    V_ASSERT(e == EB_ErrorNone && g_calls == 3, "three planes unpacked");
    V_ASSERT(g_call[0].src == (uint16_t *)in->luma && g_call[0].in_stride == (uint16_t)in->y_stride && g_call[0].d8 == pic->buffer_y + lo && g_call[0].s8 == pic->stride_y && g_call[0].w == (uint16_t)lw && g_call[0].h == (uint16_t)lh,
             "luma: own source pointer, own stride, visible width x height");
    V_ASSERT(g_call[1].src == (uint16_t *)in->cb && g_call[1].in_stride == (uint16_t)in->cb_stride && g_call[1].d8 == pic->buffer_cb + co && g_call[1].s8 == pic->stride_cb && g_call[1].w == (uint16_t)lw >> 1 && g_call[1].h == (uint16_t)lh >> 1,
             "Cb: own source pointer, own stride, visible chroma size");
    V_ASSERT(g_call[2].src == (uint16_t *)in->cr && g_call[2].in_stride == (uint16_t)in->cr_stride && g_call[2].d8 == pic->buffer_cr + co && g_call[2].s8 == pic->stride_cr && g_call[2].w == (uint16_t)lw >> 1 && g_call[2].h == (uint16_t)lh >> 1,
             "Cr: own source pointer, own stride, visible chroma size");
    V_CANARY("copy10 returns");
}
#endif

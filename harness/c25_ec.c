/* C25 — lemmas and contracts over the REAL range coder: encoder Source/Lib/Common/Codec/EbBitstreamUnit.c,
 * decoder Source/Lib/Decoder/Codec/EbDecBitstreamUnit.h, adaptation Source/Lib/Common/Codec/EbCabacContextModel.h. */
#include "vh.h"
/* loop contract for the decoder's symbol search (inserted mechanically into a scratch copy of the header):
 * ret counts the symbols already rejected, u/v are the split values of symbols ret-1/ret */
#define VERIF_LOOP_SYMBOL_SEARCH                                                                     \
    __CPROVER_assigns(u, v, ret)                                                                     \
    __CPROVER_loop_invariant(-1 <= ret && ret <= N)                                                  \
    __CPROVER_loop_invariant(ret == -1 ? v == r : (c < v && v == (((r >> 8) * (uint32_t)(icdf[ret] >> EC_PROB_SHIFT) >> (7 - EC_PROB_SHIFT - CDF_SHIFT)) + EC_MIN_PROB * (N - ret)))) \
    __CPROVER_loop_invariant(ret < N)                                                                \
    __CPROVER_decreases(N - ret)
#include <stdlib.h>
#include <limits.h>
#ifdef SCRATCH_EbBitstreamUnit_c
#include SCRATCH_EbBitstreamUnit_c
#else
#include "Source/Lib/Common/Codec/EbBitstreamUnit.c"
#endif
#include "EbCabacContextModel.h"
#ifdef SCRATCH_EbDecBitstreamUnit_h
#include SCRATCH_EbDecBitstreamUnit_h
#else
#include "Source/Lib/Decoder/Codec/EbDecBitstreamUnit.h"
#endif

/* VALID inverse CDF over n symbols (AV1 spec 8.2.2 / CDF arrays): 32768 > icdf[0] >= ... >= icdf[n-1] == 0,
 * adaptation counter icdf[n] <= 32.  Strict '<' at icdf[0]: every symbol the coder can be asked to code has a
 * non-empty interval after the EC_MIN_PROB floor only then (a zero-probability first symbol makes encoder and
 * decoder disagree — measured); the adaptation rule preserves it (U25.1). */
#define VALID_ICDF_PREFIX(a, n, i) ((i) >= (n) || (a)[i] <= (a)[(i)-1])

typedef struct { uint16_t v[17]; } cdf17_t;
#ifdef U25_1
/* adaptation: the encoder's update_cdf and the decoder's dec_update_cdf are the same function of (cdf, val, n)
 * and both preserve validity */
void h_cdf(void) {
    V_NONDET(int, N);
    V_NONDET(int, val);
    V_NONDET(cdf17_t, input);
    uint16_t a[17], b[17], in[17];
    V_ASSUME(N >= 2 && N <= 16 && val >= 0 && val < N);
    for (int i = 0; i < 17; i++) { a[i] = input.v[i]; b[i] = input.v[i]; in[i] = input.v[i]; }
    V_ASSUME(a[0] < 32768);
    for (int i = 1; i < 16; i++) V_ASSUME(VALID_ICDF_PREFIX(a, N, i));
    V_ASSUME(a[N - 1] == 0 && a[N] <= 32);
    update_cdf(a, val, N);
    dec_update_cdf(b, (int8_t)val, N);
    for (int i = 0; i < 17; i++) V_ASSERT(a[i] == b[i], "writer and reader evolve the probability table identically");
    V_ASSERT(a[0] < 32768, "adaptation keeps icdf[0] < 32768");
    for (int i = 1; i < 16; i++) V_ASSERT(VALID_ICDF_PREFIX(a, N, i), "adaptation keeps the table non-increasing");
    V_ASSERT(a[N - 1] == 0, "adaptation keeps the terminating zero");
    V_ASSERT(a[N] == (in[N] < 32 ? in[N] + 1 : 32), "adaptation counter counts up to 32 and saturates there");
    for (int i = N + 1; i < 17; i++) V_ASSERT(a[i] == in[i], "nothing beyond the counter is written");
    /* the coded symbol's probability never shrinks, the others' never grow (direction of adaptation) */
    V_CANARY("cdf lemma reached");
}
V_MAIN(h_cdf)
#endif

#ifdef U25_2
/* range split agreement, one symbol, every range, every valid table, every alphabet size 2..16:
 * the real decoder, on ANY window value c < rng, returns a symbol s; the real encoder, asked to code that s from
 * the same range, ends with the same new range and a sub-interval [low', low'+rng') that contains the code
 * point — so the decoder inverts the encoder's split. */
void h_split(void) {
    V_NONDET(cdf17_t, input);
    uint16_t icdf[17];
    for (int i = 0; i < 17; i++) icdf[i] = input.v[i];
    V_NONDET(int, N);
    V_ASSUME(N >= 2 && N <= 16);
    V_ASSUME(icdf[0] < 32768);
    for (int i = 1; i < 16; i++) V_ASSUME(VALID_ICDF_PREFIX(icdf, N, i));
    V_ASSUME(icdf[N - 1] == 0);
    V_NONDET(unsigned, r);
    V_NONDET(unsigned, c);
    V_NONDET(unsigned, lowbits);
    V_ASSUME(r >= 32768 && r <= 65535 && c < r && lowbits <= 0xFFFF);
    OdEcDec dec;
    dec.dif = (c << 16) | lowbits; dec.rng = (uint16_t)r; dec.cnt = 1000; dec.tell_offs = 0;
    unsigned char dummy[1];
    dec.buf = dummy; dec.bptr = dummy; dec.end = dummy;
    int s = od_ec_decode_cdf_q15(&dec, icdf, N);
    V_ASSERT(s >= 0 && s < N, "decoded symbol is inside the alphabet");
    OdEcEnc enc;
    enc.low = 0; enc.rng = (uint16_t)r; enc.cnt = -9 - 16; enc.offs = 0; enc.error = 0;
    enc.precarry_buf = 0; enc.precarry_storage = 0; enc.buf = 0; enc.storage = 0;
    svt_od_ec_encode_cdf_q15(&enc, s, icdf, N);
    V_ASSERT(enc.offs == 0, "no flush in this configuration (cnt chosen so that the shift stays in the window)");
    V_ASSERT(enc.rng == dec.rng, "writer and reader agree on the new range");
    V_ASSERT(dec.rng >= 32768, "range is normalised");
    int      d  = enc.cnt - (-9 - 16);
    unsigned Lp = enc.low >> d, Rp = enc.rng >> d, X = r - 1 - c;
    V_ASSERT(Lp <= X && X < Lp + Rp, "the code point lies in the writer's sub-interval of the symbol the reader returned");
    V_ASSERT((dec.dif >> 16) < dec.rng, "reader window invariant re-established");
    V_CANARY("split lemma reached");
}
V_MAIN(h_split)
#endif

#ifdef U25_2B
/* same for booleans (and literals: aom_write_literal/aom_read_literal code each bit as a bool with f = 16384) */
void h_bool(void) {
    V_NONDET(unsigned, f);
    V_NONDET(unsigned, r);
    V_NONDET(unsigned, c);
    V_NONDET(unsigned, lowbits);
    V_ASSUME(f > 0 && f < 32768);
    V_ASSUME(r >= 32768 && r <= 65535 && c < r && lowbits <= 0xFFFF);
    OdEcDec dec;
    dec.dif = (c << 16) | lowbits; dec.rng = (uint16_t)r; dec.cnt = 1000; dec.tell_offs = 0;
    unsigned char dummy[1];
    dec.buf = dummy; dec.bptr = dummy; dec.end = dummy;
    int bit = od_ec_decode_bool_q15(&dec, f);
    V_ASSERT(bit == 0 || bit == 1, "decoded boolean is 0 or 1");
    OdEcEnc enc;
    enc.low = 0; enc.rng = (uint16_t)r; enc.cnt = -9 - 16; enc.offs = 0; enc.error = 0;
    enc.precarry_buf = 0; enc.precarry_storage = 0; enc.buf = 0; enc.storage = 0;
    svt_od_ec_encode_bool_q15(&enc, bit, f);
    V_ASSERT(enc.offs == 0, "no flush in this configuration");
    V_ASSERT(enc.rng == dec.rng && dec.rng >= 32768, "writer and reader agree on the new, normalised range");
    int      d  = enc.cnt - (-9 - 16);
    unsigned Lp = enc.low >> d, Rp = enc.rng >> d, X = r - 1 - c;
    V_ASSERT(Lp <= X && X < Lp + Rp, "the code point lies in the writer's sub-interval of the boolean the reader returned");
    V_ASSERT((dec.dif >> 16) < dec.rng, "reader window invariant re-established");
    V_CANARY("bool lemma reached");
}
V_MAIN(h_bool)
#endif

#ifdef U25_3
/* encoder renormalisation: VALUE CONSERVATION.  The arithmetic-coded number is  sum(chunk_i * 2^pos_i) + low;
 * renormalising by d bits must move bits from `low` into 8-bit chunks (plus a carry bit) without losing or
 * duplicating any:   low * 2^d  ==  chunk1 * 2^(c+16+d) [+ chunk2 * 2^(c+8+d)]  +  low'      (exact, 64-bit)
 * State invariant J (from the coder's definition, see DESIGN C25):  -9 <= cnt <= -1,  low + rng <= 2^(cnt+25). */
void h_norm(void) {
    V_NONDET(uint32_t, low);
    V_NONDET(unsigned, rng);
    V_NONDET(int16_t, cnt);
    V_NONDET(uint32_t, offs);
    V_NONDET(uint32_t, storage);
    V_ASSUME(cnt >= -9 && cnt <= -1 && rng >= 1 && rng <= 65535);
    V_ASSUME((uint64_t)low + rng <= ((uint64_t)1 << (cnt + 25)));
    V_ASSUME(storage >= 2 && storage <= NORM_MAXSTORAGE && offs <= storage - 2); /* growth path: U25.3r */
    OdEcEnc enc;
    enc.precarry_buf = malloc(sizeof(uint16_t) * storage);
    V_ASSUME(enc.precarry_buf != NULL);
    enc.precarry_storage = storage; enc.offs = offs; enc.cnt = cnt; enc.error = 0; enc.buf = 0; enc.storage = 0;
    enc.low = 0; enc.rng = 0;
    od_ec_enc_normalize(&enc, low, rng);
    int d = 0;
    while ((rng << d) < 32768) d++;   /* d = 16 - ilog(rng): spec, by definition of "normalised" */
    V_ASSERT(enc.error == 0, "no error without allocation");
    V_ASSERT(enc.rng == (rng << d) && enc.rng >= 32768, "range normalised into [32768,65535] by exactly d bits");
    uint32_t n = enc.offs - offs;
    V_ASSERT(n <= 2, "at most two chunks are flushed");
    V_ASSERT(enc.cnt >= -9 && enc.cnt <= -1, "cnt stays in [-9,-1]");
    V_ASSERT((int)enc.cnt + 8 * (int)n == cnt + d, "bit accounting: 8 bits per flushed chunk (tell grows by exactly d)");
    uint64_t lhs = (uint64_t)low << d;
    uint64_t rhs = enc.low;
    if (n == 1) rhs += (uint64_t)enc.precarry_buf[offs] << (cnt + 16 + d);
    if (n == 2) rhs += ((uint64_t)enc.precarry_buf[offs] << (cnt + 16 + d)) + ((uint64_t)enc.precarry_buf[offs + 1] << (cnt + 8 + d));
    V_ASSERT(lhs == rhs, "value conservation: no bit of low is lost or duplicated by the flush");
    V_ASSERT(n < 1 || enc.precarry_buf[offs] < 512, "first chunk is one byte plus a carry bit");
    V_ASSERT(n < 2 || enc.precarry_buf[offs + 1] < 256, "second chunk is one byte");
    V_ASSERT((uint64_t)enc.low + enc.rng <= ((uint64_t)1 << (enc.cnt + 25)), "state invariant J re-established");
    V_ASSERT(svt_od_ec_enc_tell(&enc) == (cnt + 10) + (int)offs * 8 + d, "bit-count estimate advances by exactly the d bits consumed");
    V_CANARY("normalise lemma reached");
}
V_MAIN(h_norm)
#endif

#ifdef U25_3R
/* growth path of the pre-carry buffer: writes stay inside the (re)allocated buffer; allocation failure is reported */
void h_norm_grow(void) {
    V_NONDET(uint32_t, low);
    V_NONDET(unsigned, rng);
    V_NONDET(int16_t, cnt);
    V_NONDET(uint32_t, offs);
    V_NONDET(uint32_t, storage);
    V_ASSUME(cnt >= -9 && cnt <= -1 && rng >= 1 && rng <= 65535);
    V_ASSUME((uint64_t)low + rng <= ((uint64_t)1 << (cnt + 25)));
    V_ASSUME(storage <= 4 && offs <= storage);
    OdEcEnc enc;
    enc.precarry_buf = malloc(sizeof(uint16_t) * storage);
    V_ASSUME(enc.precarry_buf != NULL); /* the buffer that exists is valid; the GROWTH may fail */
    enc.precarry_storage = storage; enc.offs = offs; enc.cnt = cnt; enc.error = 0; enc.buf = 0; enc.storage = 0;
    enc.low = 0; enc.rng = 0;
    od_ec_enc_normalize(&enc, low, rng);
    V_ASSERT(enc.error == 0 || (enc.error == -1 && enc.offs == 0), "allocation failure is reported in error and nothing more is written");
    V_ASSERT(enc.error != 0 || enc.offs <= enc.precarry_storage, "offset never exceeds the buffer after growth");
    V_CANARY("grow lemma reached");
}
#endif

#ifdef U25_RT
/* U25.4 — END-TO-END round trip on the real code, bounded in the number of symbols: initialise the real writer,
 * code RT_K booleans with arbitrary probabilities, flush (svt_od_ec_enc_done: final bits + carry propagation), hand
 * the bytes to the real reader (od_ec_dec_init / od_ec_dec_refill) and decode RT_K booleans with the same
 * probabilities: every decoded value equals the coded one.  This closes, for short sequences, what the step
 * lemmas leave open: the flush, the carry propagation, the reader's initial fill and its padding past the end. */
#ifndef RT_K
#define RT_K 2
#endif
/* buffer growth is not exercised by this many symbols (16-byte initial buffers): shown by the assertion below, so the
 * verifier does not have to model a reallocation of symbolic size (growth itself: U25.3.grow) */
int g_realloc_reached;
void *realloc(void *p, size_t n) { (void)p; (void)n; g_realloc_reached = 1; __CPROVER_assert(0, "bounded configuration: the 16-byte buffers never need to grow for this many symbols"); __CPROVER_assume(0); return 0; }
void h_roundtrip(void) {
    OdEcEnc enc;
    svt_od_ec_enc_init(&enc, 16);
    V_ASSERT(enc.error == 0, "writer initialised");
    unsigned f[RT_K]; int b[RT_K];
    for (int k = 0; k < RT_K; k++) {
        V_NONDET(unsigned, fk); V_NONDET(int, bk);
        V_ASSUME(fk > 0 && fk < 32768 && (bk == 0 || bk == 1));
        f[k] = fk; b[k] = bk;
        svt_od_ec_encode_bool_q15(&enc, b[k], f[k]);
    }
    uint32_t n = 0;
    uint8_t *out = svt_od_ec_enc_done(&enc, &n);
    V_ASSERT(out != NULL && enc.error == 0, "flush succeeds");
    V_ASSERT(n >= 1 && n <= 16, "flushed byte count within the initial buffer for this many symbols");
    OdEcDec dec;
    od_ec_dec_init(&dec, out, n);
    for (int k = 0; k < RT_K; k++) {
        int d = od_ec_decode_bool_q15(&dec, f[k]);
        V_ASSERT(d == b[k], "round trip: the reader returns the boolean the writer coded");
    }
    V_CANARY("round trip completed");
}
/* U25.4.done — the flush as a function of the writer state: from ANY state of the pre-carry buffer (up to DONE_N
 * entries, each a byte plus a pending carry bit, i.e. < 512 — what od_ec_enc_normalize stores, U25.3) and any
 * low / cnt satisfying the state invariant, svt_od_ec_enc_done returns bytes whose big-endian value equals the
 * sum of the pre-carry entries (the stored ones and the final ones it appends), each weighted by its byte position,
 * modulo 256^nbytes: carry propagation loses and invents nothing.  Shifts and adds only (no multiplier). */
#ifndef DONE_N
#define DONE_N 3
#endif
void h_done(void) {
    OdEcEnc enc;
    svt_od_ec_enc_init(&enc, 16);
    V_ASSERT(enc.error == 0, "writer initialised");
    V_NONDET(unsigned, n);
    V_ASSUME(n <= DONE_N);
    for (unsigned i = 0; i < DONE_N; i++) { V_NONDET(uint16_t, v); V_ASSUME(v < 512); if (i < n) enc.precarry_buf[i] = v; }
    enc.offs = n;
    V_NONDET(int16_t, cnt); V_NONDET(uint32_t, low);
    V_ASSUME(cnt >= -9 && cnt <= -1);
    V_ASSUME(low < (1u << (cnt + 25)));      /* state invariant of the writer (U25.3.norm): low + rng <= 2^(cnt+25) */
    enc.cnt = cnt; enc.low = low; enc.rng = 0x8000;
    uint32_t nb = 0;
    uint8_t *out = svt_od_ec_enc_done(&enc, &nb);
    V_ASSERT(out != NULL && enc.error == 0, "flush succeeds");
    V_ASSERT(nb >= n && nb <= n + 3, "the flush appends at most three final bytes");
    uint64_t want = 0, got = 0;
    for (unsigned i = 0; i < DONE_N + 3; i++) if (i < nb) {
        want += (uint64_t)enc.precarry_buf[i] << (8 * (nb - 1 - i));
        got |= (uint64_t)out[i] << (8 * (nb - 1 - i));
    }
    uint64_t mask = nb >= 8 ? ~(uint64_t)0 : (((uint64_t)1 << (8 * nb)) - 1);
    V_ASSERT(got == (want & mask), "carry propagation: the output bytes are the pre-carry entries summed with their carries (mod 256^nbytes)");
    V_CANARY("flush returns");
}
/* same, multi-symbol alphabets: RT_K symbols, each with its own arbitrary valid inverse-CDF table of 2..RT_N
 * symbols, mixed with one boolean in between (the two coding paths share the window) */
#ifndef RT_N
#define RT_N 4
#endif
void h_roundtrip_cdf(void) {
    OdEcEnc enc;
    svt_od_ec_enc_init(&enc, 16);
    V_ASSERT(enc.error == 0, "writer initialised");
    uint16_t icdf[RT_K][RT_N + 1]; int N[RT_K]; int sym[RT_K];
    V_NONDET(unsigned, fb); V_NONDET(int, bb);
    V_ASSUME(fb > 0 && fb < 32768 && (bb == 0 || bb == 1));
    for (int k = 0; k < RT_K; k++) {
        V_NONDET(int, n); V_NONDET(int, s);
        V_ASSUME(n >= 2 && n <= RT_N && s >= 0 && s < n);
        N[k] = n; sym[k] = s;
        for (int i = 0; i <= RT_N; i++) { V_NONDET(uint16_t, v); icdf[k][i] = v; }
        V_ASSUME(icdf[k][0] < 32768);
        for (int i = 1; i < RT_N; i++) V_ASSUME(VALID_ICDF_PREFIX(icdf[k], n, i));
        V_ASSUME(icdf[k][n - 1] == 0);
        svt_od_ec_encode_cdf_q15(&enc, sym[k], icdf[k], N[k]);
        if (k == 0) svt_od_ec_encode_bool_q15(&enc, bb, fb);
    }
    uint32_t nb = 0;
    uint8_t *out = svt_od_ec_enc_done(&enc, &nb);
    V_ASSERT(out != NULL && enc.error == 0, "flush succeeds");
    OdEcDec dec;
    od_ec_dec_init(&dec, out, nb);
    for (int k = 0; k < RT_K; k++) {
        int d = od_ec_decode_cdf_q15(&dec, icdf[k], N[k]);
        V_ASSERT(d == sym[k], "round trip: the reader returns the symbol the writer coded");
        if (k == 0) { int b = od_ec_decode_bool_q15(&dec, fb); V_ASSERT(b == bb, "round trip: boolean between two symbols"); }
    }
    V_CANARY("symbol round trip completed");
}
#endif

/* C02 / C22 — count_frames_in_next_tu (EbPacketizationProcess.c): "each packet contains exactly one displayed
 * frame": the function returns k > 0 only if queue entries head .. head+k-2 (mod 2048) are complete and NOT shown and
 * entry head+k-1 is complete and shown; 0 iff an incomplete entry is met first; *data_size is the byte total.
 * Bounded in the LENGTH of the temporal unit (<= TU_N frames, loop unwound with unwinding assertion); the head
 * position is arbitrary, so wrap-around at 2048 is included. */
#include <stdlib.h>
#include "EbDefinitions.h"
#include "EbSystemResourceManager.h"
#include "EbEncodeContext.h"
#define QN PACKETIZATION_REORDER_QUEUE_MAX_DEPTH
#include "Source/Lib/Encoder/Codec/EbPacketizationProcess.c"
void svt_log(int level, const char *tag, const char *fmt, ...) { (void)level; (void)tag; (void)fmt; }
#ifndef TU_N
#define TU_N 8
#endif
void h_count(void) {
    /* the queue: 2048 slots; a window of TU_N distinct entry objects around the head is modelled, each with
     * unconstrained content; slots outside the window are never reached because one of the first TU_N entries is
     * shown or incomplete (assumed below and reported as this unit's bound on the TEMPORAL-UNIT LENGTH, not on
     * the head position or the queue) */
    EncodeContext *ctx = malloc(sizeof(*ctx));
    __CPROVER_assume(ctx != NULL);
    PacketizationReorderEntry *e[TU_N];
    EbObjectWrapper *w[TU_N]; EbBufferHeaderType *b[TU_N];
    ctx->packetization_reorder_queue = malloc(sizeof(PacketizationReorderEntry *) * QN);
    __CPROVER_assume(ctx->packetization_reorder_queue != NULL);
    /* head position: the three positions next to the physical end of the queue (wrap-around inside the unit), the
     * start and one interior position; a fully symbolic head costs ~8 minutes through the 2048-slot pointer array */
#ifdef HEAD_CONST
    unsigned head = HEAD_CONST;
#else
    unsigned hsel;
    unsigned head = hsel == 0 ? 0 : hsel == 1 ? QN - 1 : hsel == 2 ? QN - 2 : hsel == 3 ? QN - 3 : 1000;
#endif
    ctx->packetization_reorder_queue_head_index = head;
    for (int k = 0; k < TU_N; k++) {
        e[k] = malloc(sizeof(PacketizationReorderEntry)); w[k] = malloc(sizeof(EbObjectWrapper)); b[k] = malloc(sizeof(EbBufferHeaderType));
        __CPROVER_assume(e[k] && w[k] && b[k]);
        w[k]->object_ptr = b[k];
        { _Bool incomplete; e[k]->output_stream_wrapper_ptr = incomplete ? NULL : w[k]; }  /* assigned, not assumed: the verifier dereferences by value sets */
        ctx->packetization_reorder_queue[(head + k) % QN] = e[k];
        __CPROVER_assume(b[k]->n_filled_len < (1u << 24));
    }
    int closes = 0;
    for (int k = 0; k < TU_N; k++) closes = closes || e[k]->show_frame || e[k]->output_stream_wrapper_ptr == NULL;
    __CPROVER_assume(closes);
    uint32_t size = 0;
    uint32_t n = count_frames_in_next_tu(ctx, &size);
    __CPROVER_assert(n <= TU_N, "the count stops at the first shown or incomplete entry");
    unsigned wit;   /* arbitrary witness position */
    __CPROVER_assume(wit < TU_N);
    __CPROVER_assert(n == 0 || (e[n - 1]->show_frame != 0 && e[n - 1]->output_stream_wrapper_ptr != NULL), "the last frame of the unit is complete and SHOWN");
    __CPROVER_assert(n == 0 || wit + 1 >= n || (e[wit]->show_frame == 0 && e[wit]->output_stream_wrapper_ptr != NULL), "every earlier frame of the unit is complete and NOT shown: exactly one displayed frame per packet");
    uint32_t sum = 0; int incomplete_first = 0;
    for (int k = 0; k < TU_N; k++) if ((uint32_t)k < n) sum += b[k]->n_filled_len;
    for (int k = 0; k < TU_N; k++) if (e[k]->output_stream_wrapper_ptr == NULL) { int shown_before = 0; for (int j = 0; j < k; j++) shown_before |= e[j]->show_frame != 0; if (!shown_before) incomplete_first = 1; }
    __CPROVER_assert((n == 0) == (incomplete_first != 0), "returns 0 exactly when an incomplete entry comes before the first shown one");
    __CPROVER_assert(n == 0 || size == sum, "data_size is the byte total of the counted frames");
    __CPROVER_assert(0, "CANARY returns");
    __CPROVER_assert(!(n == 3), "CANARY a three-frame temporal unit (heads 2046, 2047: wraps around the end of the queue)");
    __CPROVER_assert(!(n == TU_N), "CANARY a full-length temporal unit (heads above 2048-TU_N: wraps around the end of the queue)");
}

/* C10 (byte-access layer) — the decoder's readers of the caller's input bytes. */
#include "vh.h"
#include <stdlib.h>
#include <string.h>
#include "EbDefinitions.h"
#include "EbDecBitstream.h"
#include "EbAv1Structs.h"
#include "EbDecStruct.h"
void svt_log(int level, const char *tag, const char *fmt, ...) { (void)level; (void)tag; (void)fmt; }
#ifndef RD_MAXN
#define RD_MAXN 24
#endif
#if defined(U10_BITS)
#include "Source/Lib/Decoder/Codec/EbDecBitstream.c"
/* U10.1: dec_bits_init + dec_get_bits never read outside the caller's buffer [data, data+numbytes).
 * KNOWN FINDING F5 (known_findings.json): the reader prefetches two 32-bit words, i.e. it reads up to 8 bytes beyond
 * the bytes it consumes; svt_av1_dec_frame hands it the application's buffer without slack.  With the define
 * KF_C10_SLACK the buffer is given 8 readable bytes of slack (the implicit precondition `buf_max = data+numbytes+8`
 * in the code): then every read is in bounds. */
#ifdef KF_C10_SLACK
#define SLACK 8
#else
#define SLACK 0
#endif
void h_bits(void) {
    V_NONDET(size_t, n); V_NONDET(uint32_t, b1); V_NONDET(uint32_t, b2); V_NONDET(uint32_t, b3);
    V_ASSUME(n >= 1 && n <= RD_MAXN);
    uint8_t *data = malloc(n + SLACK);
    V_ASSUME(data != NULL);
    Bitstrm bs;
    dec_bits_init(&bs, data, n);
    V_ASSUME(b1 <= 32 && b2 <= 32 && b3 <= 32 && (size_t)b1 + b2 + b3 <= 8 * n);   /* never asks for more bits than the buffer holds */
    uint32_t v1 = dec_get_bits(&bs, b1), v2 = dec_get_bits(&bs, b2), v3 = dec_get_bits(&bs, b3);
    V_ASSERT(b1 >= 32 || v1 < (1u << b1), "f(n) returns an n-bit value");
    V_ASSERT(get_position(&bs) == b1 + b2 + b3, "the bit position advances by exactly the bits consumed");
    (void)v2; (void)v3;
    V_CANARY("bit reader returns");
}
#endif
#if defined(U10_VALUES)
#include "Source/Lib/Decoder/Codec/EbDecBitstream.c"
/* U10.2: value ranges of the derived readers, any buffer content (buffer with the reader's 8 bytes of slack) */
void h_values(void) {
    uint8_t data[48];   /* unconstrained */
    Bitstrm bs;
    V_NONDET(uint32_t, n); V_NONDET(int, which);
    dec_bits_init(&bs, data, 40);
    if (which == 0) { V_ASSUME(n >= 2 && n <= 65536); uint32_t v = dec_get_bits_ns(&bs, n); V_ASSERT(v < n, "ns(n) returns a value below n (later used as an index)"); }
    else if (which == 1) { V_ASSUME(n >= 1 && n <= 16); /* widest su() of the AV1 syntax is 16 bits */ int32_t v = dec_get_bits_su(&bs, n); V_ASSERT(v >= -(1 << (n - 1)) && v < (1 << (n - 1)), "su(n) returns an n-bit signed value"); }
    else if (which == 2) { uint32_t v = dec_get_bits_uvlc(&bs); (void)v; V_ASSERT(get_position(&bs) <= 32 + 32 + 1, "uvlc() consumes at most 65 bits"); }
    else if (which == 3) { V_ASSUME(n <= 4); uint32_t v = dec_get_bits_le(&bs, n); V_ASSERT(n >= 4 || v < (1u << (8 * n)), "le(n) returns an n-byte value"); }
    else { size_t val = 0, len = 0; dec_get_bits_leb128(&bs, 8, &val, &len); V_ASSERT(len >= 1 && len <= 8 && (len == 8 || val < ((size_t)1 << (7 * len))), "leb128() consumes 1..8 bytes and returns a value of that many 7-bit groups"); }
    V_CANARY("value readers return");
}
#endif
#if defined(U10_FRAMING)
#include "Source/Lib/Decoder/Codec/EbDecBitstream.c"
size_t g_payload, g_left;
int nondet_int(void); size_t nondet_size(void);
/* havoc contract of the header reader: any header length 1..2, any size-field length 0..8, any payload size */
EbErrorType stub_read_obu_header_size(Bitstrm *bs, ObuHeader *h, size_t size, size_t *const length_size) {
    (void)bs; (void)size;
    h->size = nondet_int() ? 1 : 2; *length_size = nondet_size(); h->payload_size = nondet_size();
    __CPROVER_assume(*length_size <= 8 && h->payload_size <= UINT32_MAX);
#ifdef KF_C10_TRUNC
    /* witness region of known finding KF-C10-truncated excluded: the header + size field lie inside the input */
    __CPROVER_assume(h->size + *length_size <= size);
#endif
    return nondet_int() ? EB_ErrorNone : EB_Corrupt_Frame;
}
void stub_bits_init(Bitstrm *bs, const uint8_t *d, size_t n) { (void)bs; (void)d; (void)n; }
#include SCRATCH_EbDecParseObu_c
void h_framing(void) {
    V_NONDET(size_t, n);
    V_ASSUME(n <= 64);
    uint8_t *buf = malloc(n + 16);
    V_ASSUME(buf != NULL);
    uint8_t *p = buf; uint8_t *end = buf + n;
    EbErrorType e = verif_c10_framing(&p, n, 0);
    V_ASSERT(e != EB_ErrorNone || (p >= buf && p <= end), "after the OBU header is consumed the read pointer is still inside the input");
    V_ASSERT(e != EB_ErrorNone || p > end || g_left == (size_t)(end - p), "the remaining-size counter equals the bytes actually left (no unsigned wrap)");
    V_ASSERT(e != EB_ErrorNone || g_payload <= g_left, "an OBU is accepted only if its whole payload lies inside the input");
    V_CANARY("framing step returns");
    __CPROVER_assert(e != EB_ErrorNone, "CANARY an OBU can be accepted");
}
#endif

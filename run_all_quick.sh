#!/bin/sh
# runs every claimed property's quick check sequentially (each runs its units in parallel) and validates the evidence
cd "$(dirname "$0")"
rc=0
for p in $(python3 -c "import json; print(' '.join(c['property_id'] for c in json.load(open('MANIFEST.json'))['checks']))"); do
  s=$(date +%s); ./check $p --tier quick > .build/run_$p.log 2>&1; r=$?; e=$(date +%s)
  echo "$p exit=$r $((e-s))s $(grep -c KNOWN-FINDING .build/run_$p.log) known-finding lines"
  [ $r -ne 0 ] && rc=1
done
python3-vt engine/validate.py || rc=1
exit $rc

#!/bin/sh
# Offline setup: nothing to build — the checks compile the real /repo files with goto-cc on every run.
# Verify that the tools the checks rely on are present.
set -e
for t in cbmc goto-cc goto-instrument gcc python3; do command -v $t >/dev/null || { echo "missing tool: $t"; exit 1; }; done
cbmc --version
mkdir -p /verif/evidence /verif/replays
echo "setup ok"

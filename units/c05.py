from engine.core import Unit

GEN = ("python3 {verif}/engine/gen_layout.py SequenceControlSet EbSequenceControlSet.h {udir}/c05_layout.h "
       "--exclude 'segment|tile_group|_init_count|scd_delay' --big 64 -I{udir}/../../gen "
       "$(python3 -c \"import sys; sys.path.insert(0,'{verif}'); from engine import core; "
       "print(' '.join(f for f in core.repo_flags() if f.startswith('-I') or f.startswith('-D')))\")")
GEN2 = ("python3 {verif}/engine/gen_layout.py EbSvtAv1EncConfiguration EbSvtAv1Enc.h {udir}/c05_cfg_layout.h "
        "--exclude '^use_cpu_flags$' --big 64 -I{repo}/Source/API && sed -i 's/LAYOUT_/CFG_LAYOUT_/g' {udir}/c05_cfg_layout.h")
UNITS = [
    Unit(uid="U05.1.geometry_only", prop="C05", harness="harness/c05_threads.c", entry="h_frame", mode="plain",
         functions=["load_default_buffer_configuration_settings", "set_parent_pcs", "get_num_processors"],
         pre_cmds=[GEN, GEN2], keep_bodies=["load_default_buffer_configuration_settings"], min_obligations=60, canaries=2,
         cover_functions=[], timeout=900, mem_gb=24, unwind=66, backend="cadical",
         what="frame: of the 118 leaf fields of SequenceControlSet only segment / tile-group / *_init_count / scd_delay "
              "fields may change; the 70 others (configuration, sequence header, sizes, quantizer tables ...) are "
              "bit-identical after the call for any OS processor count and configuration",
         trusted=["sysconf(): any count in 1..1024"]),
]
# second anchor of C05: "the wavefront segment dependency map guarantees neighbour availability regardless of the
# segment grid" — the grid-independent geometric lemmas of C24 (same harness), registered here as well
UNITS.append(Unit(uid="U05.2.segment_lemmas", prop="C05", harness="harness/c24_seg.c", entry="h_lemmas", mode="plain",
                  defines=["U24_LEMMAS"], functions=["BAND_INDEX", "ROW_INDEX", "SEGMENT_INDEX", "BAND_TOTAL_COUNT"],
                  min_obligations=8, cover_functions=[], native=True, timeout=900, backend="cadical",
                  what="for EVERY segment grid (the grid is what the core count changes) and picture size W<=65, H<=34: the "
                       "segments holding a superblock's left / upper / upper-right neighbours are in the same or the "
                       "previous segment row with band <= (upper-right: equal), i.e. they are predecessors in the "
                       "dependency map whatever the grid - neighbour availability does not depend on the thread geometry"))
META = {"C05": {
    "level": "proof",
    "explanation": "Configuration-level non-interference: the function deriving the parallel structure from the core count "
                   "has a machine-checked frame (field list generated from DWARF) containing only parallel geometry and "
                   "pool counts. That no kernel reads this geometry into a coding decision is NOT proved.",
    "not_covered": ["pipeline-level independence (segment geometry read by enc_dec_kernel for CDF propagation when "
                    "pic_based_rate_est)", "the documented exceptions in copy_api_from_app / set_param_based_on_input "
                    "(logical_processors == 1 enables picture-based rate estimation and decode-order picture management)"],
}}

from engine.core import Unit

H = "harness/c12_verify.c"
KEEP = ["verify_settings", "copy_api_from_app", "set_default_configuration_parameters", "svt_svt_enc_init_parameter"]
COMMON = dict(prop="C12", harness=H, mode="plain", keep_bodies=KEEP, cover_functions=[], timeout=900, mem_gb=16,
              unwind=8, drop_checks=["--signed-overflow-check"],
              trusted=["get_num_processors()/sysconf: any positive count"])
UNITS = [
    Unit(uid="U12.2.d2c", entry="h_d2c", defines=["U12_D2C"], functions=["verify_settings"], min_obligations=200,
         what="for each of the documented parameter clauses (contracts/c12_doc.h): a documented-invalid value is rejected, "
              "whatever the other fields are (full 200 KB SequenceControlSet symbolic)", **COMMON),
    Unit(uid="U12.2.c2d_lite", entry="h_c2d", defines=["U12_C2D", "U12_C2D_LITE"], tier="thorough",
         functions=["copy_api_from_app", "verify_settings", "svt_svt_enc_init_parameter"], min_obligations=200, canaries=32,
         what="as U12.2.c2d for the 31 parameters that do not feed the size / frame-rate arithmetic (about 5 min per run with ~70 obligations, hence thorough tier)", **COMMON),
    Unit(uid="U12.2.c2d", entry="h_c2d", defines=["U12_C2D"], tier="thorough",
         functions=["copy_api_from_app", "verify_settings", "svt_svt_enc_init_parameter"], min_obligations=200, canaries=38,
         what="every documented-valid value of one parameter, others at the library defaults, 64x64, is accepted by the "
              "real chain copy_api_from_app + verify_settings", **COMMON),
    Unit(uid="U12.2.rc_qp", entry="h_rc_qp", defines=["U12_RCQP"], functions=["copy_api_from_app", "verify_settings"], min_obligations=200,
         what="through the API path, rate-control modes 1 and 2: an application QP bound outside the documented [0-63] is "
              "rejected and an accepted configuration works from the application's bounds (the copy hands them to the "
              "validation in every rate-control mode)", **COMMON),
    Unit(uid="U12.2.rc", entry="h_rc", defines=["U12_RC"], functions=["copy_api_from_app", "verify_settings",
         "compute_default_look_ahead", "compute_default_intra_period", "cap_look_ahead_distance"], min_obligations=100,
         what="rate-control group jointly symbolic (mode 0..2, intra period -2..255, TPL, levels 3..5, 1..120 fps) with "
              "the look-ahead left at its default: accepted", **COMMON),
    Unit(uid="U12.2.mps", entry="h_mps", defines=["U12_MPS"], functions=["verify_settings"], min_obligations=100,
         kind="bounded", bound="manual prediction structure with at most 4 entries (witness entry/slot arbitrary)",
         what="manual prediction structure: a future frame in any list0 slot, an out-of-range decode order / layer, or a "
              "list1 frame beyond the mini-GOP is rejected", **COMMON),
]
META = {"C12": {
    "level": "proof",
    "explanation": "Documented-domain oracle (84 clauses written from the user guide / API header) against the real "
                   "validation chain: documented-invalid => rejected for every clause with all other fields symbolic; "
                   "documented-valid => accepted per parameter from the defaults and jointly for the rate-control "
                   "group. Mismatches between documentation and code are genuine findings, listed individually.",
    "not_covered": ["joint acceptance of ALL parameters at once (CODE->DOC is per parameter / per group)",
                    "HME search-area arrays, two-pass buffers, superres fields",
                    "the later stages of svt_av1_enc_set_parameter (allocation of the prediction structure group)"],
}}

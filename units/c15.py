from engine.core import Unit

H16 = "harness/c16_ctor.c"
TR = ["OS objects (mutex, semaphore, thread) modelled as heap cells (stubs/os_objects.h)",
      "CBMC's malloc/free models with --memory-leak-check"]
UNITS = [
    Unit(uid="U15.3.decoder_teardown", prop="C15", harness="harness/c15_teardown.c", entry="h_dec_teardown", mode="plain",
         functions=["svt_av1_dec_deinit", "svt_av1_dec_deinit_handle", "init_svt_av1_decoder_handle", "svt_dec_handle_ctor",
                    "EB_MALLOC_DEC"],
         keep_bodies=["svt_av1_dec_deinit", "svt_av1_dec_deinit_handle", "init_svt_av1_decoder_handle"],
         cbmc_flags=["--memory-leak-check"], unwind=6, min_obligations=30, cover_functions=["svt_av1_dec_deinit"],
         cover_allow=[r"return EB_ErrorBadParameter;|EB_A_PTR|EB_SEMAPHORE|EB_THREAD|EB_MUTEX|default:|dec_sync_all_threads|return EB_ErrorNone;|_aligned_free|^break;$|^free\(memory_entry->ptr\);$"],
         timeout=600, trusted=TR, kind="bounded", bound="0..2 library allocations between handle creation and teardown",
         what="decoder handle creation, 0..2 allocations through the library's allocation macro, deinit, deinit_handle: "
              "no leak, no double free, no invalid free (0 allocations = teardown right after handle creation)"),
]
# destructors of the encoder's resource-manager family and segments: full construction then EB_DELETE, leak check
for uid, entry, defs, fns in [
    ("U15.1.fifo", "h_fifo", ["U16_SRM", "MQ_MAXP=2", "RES_MAXN=1"], ["svt_fifo_dctor"]),
    ("U15.1.circular_buffer", "h_cb", ["U16_SRM", "MQ_MAXP=2", "RES_MAXN=1"], ["svt_circular_buffer_dctor"]),
    ("U15.1.segments", "h_seg", ["U16_SEG"], ["enc_dec_segments_dctor"]),
    ("U15.1.thread_array", "h_threads", ["U16_THREADS"], ["EB_DESTROY_THREAD_ARRAY"]),
]:
    UNITS.append(Unit(uid=uid, prop="C15", harness=H16, entry=entry, functions=fns, mode="plain", defines=defs,
                      malloc_may_fail=True, cbmc_flags=["--memory-leak-check"], unwind=5, canaries=2, min_obligations=20,
                      cover_functions=[], trusted=TR, timeout=300, kind=("proved" if "segments" not in uid and "thread" not in uid else "bounded"),
                      bound=("" if "segments" not in uid and "thread" not in uid else "<= 3 rows / threads"),
                      remove_bodies=([d for d in ["svt_fifo_dctor", "svt_circular_buffer_dctor", "svt_muxing_queue_dctor",
                                                  "svt_object_wrapper_dctor", "svt_system_resource_dctor", "obj_dctor"]
                                      if d not in fns] if "U16_SRM" in defs else []),
                      what="destructor on a complete object AND on every prefix of its construction (any subset of its "
                           "allocations failed): each owned allocation / OS object released exactly once, nothing NULL "
                           "dereferenced (same obligations as the C16 unit of this constructor, teardown side)"))
EH = "Source/Lib/Encoder/Globals/EbEncHandle.c"
UNITS.append(Unit(
    uid="U15.2.enc_threads", prop="C15", harness="harness/c15_threads.c", entry="h_thread_pairing", mode="plain",
    functions=["svt_av1_enc_init [block slice: kernel-thread creation]", "svt_enc_handle_stop_threads"],
    slice_spec=[{"kind": "slice", "file": EH, "func_re": r"^EB_API EbErrorType svt_av1_enc_init\(",
                 "first": "EB_CREATE_THREAD(enc_handle_ptr->resource_coordination_thread_handle, resource_coordination_kernel, enc_handle_ptr->resource_coordination_context_ptr);",
                 "last": "EB_CREATE_THREAD(enc_handle_ptr->packetization_thread_handle, packetization_kernel, enc_handle_ptr->packetization_context_ptr);",
                 "name": "verif_c15_create_threads", "ret": "EbErrorType", "epilogue": ["return EB_ErrorNone;"], "allow": ["return"],
                 "params": "EbEncHandle *enc_handle_ptr, SequenceControlSet *control_set_ptr"}],
    keep_bodies=["verif_c15_create_threads", "svt_enc_handle_stop_threads"], malloc_may_fail=True,
    cbmc_flags=["--memory-leak-check"], unwind=4, canaries=2, min_obligations=100, cover_functions=[], timeout=900, mem_gb=16,
    trusted=TR + ["case-split calloc model for small pointer arrays (stubs/calloc_small.h)"], kind="bounded",
    bound="1..2 threads per multi-threaded stage (10 stages, counts independent), 6 single threads",
    what="kernel-thread creation sequence of svt_av1_enc_init (any prefix may succeed) followed by "
         "svt_enc_handle_stop_threads: every created thread joined exactly once (no leaked handle cell, no double "
         "free), every handle array released with the count it was created with (no out-of-bounds), handles cleared",
    assumptions=["block slice: the rest of svt_av1_enc_init is dropped; the per-stage counts are arbitrary in 1..2"]))
CRE = ["svt_input_buffer_header_creator", "svt_input_buffer_header_destroyer", "allocate_frame_buffer",
       "svt_output_buffer_header_creator", "svt_output_buffer_header_destroyer",
       "svt_output_recon_buffer_header_creator", "svt_output_recon_buffer_header_destroyer"]
UNITS.append(Unit(
    uid="U15.4.pool_creators", prop="C15", harness="harness/c15_creators.c", entry="h_creators", mode="plain",
    functions=CRE, keep_bodies=CRE + ["svt_picture_buffer_desc_ctor", "stub_pbd_dctor", "posix_memalign"], malloc_may_fail=True,
    cbmc_flags=["--memory-leak-check"], unwind=4, canaries=2, min_obligations=60, cover_functions=[], timeout=600, mem_gb=16,
    trusted=TR + ["svt_picture_buffer_desc_ctor replaced by its resource-accounting contract stub", "posix_memalign = failing malloc"],
    what="the three creator / destroyer pairs of the encoder's buffer pools, every subset of the creator's allocations "
         "failing: whatever was allocated is reachable from the pool element so that the wrapper's release frees it "
         "(no leak, no double free); success yields an object the destroyer releases completely"))
META = {"C15": {
    "level": "proof",
    "explanation": "Destructors of the resource-manager family / segments / thread arrays on complete and partially "
                   "constructed objects, the shutdown protocol (C23 U23.6, cited) and the decoder's session teardown "
                   "through its allocation map. Whole-session leak freedom of the encoder is not covered.",
    "not_covered": ["svt_enc_handle_dctor as a whole (its thread half is U15.2), mid-stream teardown with objects in flight, that a joined kernel actually returns (shutdown protocol: C23 U23.6)",
                    "F6: one global allocation map shared by all decoder handles (two live handles) - see C17"],
}}

from engine.core import Unit

PK = "Source/Lib/Encoder/Codec/EbPacketizationProcess.c"
H = "harness/c03_packet.c"
HDR = {"kind": "slice", "file": PK, "func_re": r"^void \*packetization_kernel\(",
       "first": "output_stream_ptr->flags = 0;", "last": "output_stream_ptr->cb_ssim   = 0;",
       "epilogue": ["}"], "name": "verif_c03_header",
       "params": "PictureControlSet *pcs_ptr, SequenceControlSet *scs_ptr, EncodeContext *encode_context_ptr, EbBufferHeaderType *output_stream_ptr"}
DRAIN = {"kind": "slice", "file": PK, "func_re": r"^void \*packetization_kernel\(",
         "first": "collect_frames_info(context_ptr, encode_context_ptr, frames);",
         "last": "release_frames(encode_context_ptr, frames);", "name": "verif_c03_drain",
         "prologue": ["PacketizationReorderEntry *queue_entry_ptr; EbObjectWrapper *output_stream_wrapper_ptr; EbBufferHeaderType *output_stream_ptr;"],
         "params": "PacketizationContext *context_ptr, EncodeContext *encode_context_ptr, uint32_t frames, uint32_t total_bytes"}
STUBS = {"svt_post_full_object": "stub_post_full_object", "collect_frames_info": "stub_collect", "encode_tu": "stub_encode_tu",
         "encode_show_existing": "stub_encode_show_existing", "pop_undisplayed_frame": "stub_pop_undisplayed",
         "release_frames": "stub_release_frames"}
UNITS = [
    Unit(uid="U03.1.header", prop="C03", harness=H, entry="h_header", mode="plain", defines=["U03_HEADER"],
         functions=["packetization_kernel [block slice: packet header]"], slice_spec=[HDR, DRAIN], replace_calls=STUBS,
         keep_bodies=["verif_c03_header"], min_obligations=20, cover_functions=[], timeout=300,
         what="per picture: pts/dts/app-private pointer taken from the submitted picture, EOS exactly on the terminating "
              "picture, picture type, SSE hand-off iff stat_report",
         assumptions=["block slice: everything of the kernel outside the range is dropped"]),
    Unit(uid="U03.2.drain", prop="C03", harness=H, entry="h_drain", mode="plain", defines=["U03_DRAIN"],
         functions=["packetization_kernel [block slice: body of the temporal-unit drain loop]"], slice_spec=[HDR, DRAIN],
         replace_calls=STUBS, keep_bodies=["verif_c03_drain"], min_obligations=20, cover_functions=[], timeout=300,
         what="per drained temporal unit: one packet posted, then exactly one for a show-existing frame; EOS on exactly one "
              "posted packet, the last one (no packet follows EOS)",
         assumptions=["block slice; unit assembly / show-existing writer / queue helpers are logging stubs",
                      "a unit flagged has_show_existing has an undisplayed frame to pop"]),
    Unit(uid="U03.3.pts_order", prop="C03", harness=H, entry="h_pts", mode="plain", defines=["U03_PTS"],
         functions=["pts_descend"], slice_spec=[HDR, DRAIN], replace_calls=STUBS, keep_bodies=["pts_descend"],
         min_obligations=5, cover_functions=[], timeout=300,
         what="the undisplayed-frame comparator orders by descending SIGNED pts for any two timestamps less than 2^31 apart"),
]
PD = "Source/Lib/Encoder/Codec/EbPictureDecisionProcess.c"
PERIOD = {"kind": "slice", "file": PD, "func_re": r"^void\* picture_decision_kernel\(",
          "first": "// If the Intra period length is 0, then introduce an intra for every picture",
          "last": "// Determine if Pictures can be released from the Pre-Assignment Buffer", "name": "verif_c19_period",
          "params": "SequenceControlSet *scs_ptr, PictureParentControlSet *pcs_ptr, EncodeContext *encode_context_ptr"}
RELEASE = {"kind": "slice", "file": PD, "func_re": r"^void\* picture_decision_kernel\(",
           "first": "// Determine if Pictures can be released from the Pre-Assignment Buffer",
           "last": "context_ptr->total_number_of_mini_gops = 1;", "epilogue": ["}"], "name": "verif_c03_release",
           "params": "SequenceControlSet *scs_ptr, PictureParentControlSet *pcs_ptr, EncodeContext *encode_context_ptr, PictureDecisionContext *context_ptr"}
UNITS.append(Unit(uid="U03.4.eos_latch", prop="C03", harness="harness/c19_intra.c", entry="h_eos_latch", mode="plain", defines=["U03_EOS"],
                  functions=["picture_decision_kernel [block slice: pre-assignment bookkeeping]"], slice_spec=[PERIOD, RELEASE],
                  keep_bodies=["verif_c19_period"], min_obligations=10, cover_functions=[], timeout=600, mem_gb=16,
                  what="the EOS flag of the incoming picture is latched into the pre-assignment buffer state (an earlier latch is "
                       "kept) and the picture is counted exactly once",
                  assumptions=["block slice: the rest of the kernel is dropped"]))
UNITS.append(Unit(uid="U03.5.eos_flush", prop="C03", harness="harness/c19_intra.c", entry="h_eos_flush", mode="plain", defines=["U03_EOS"],
                  functions=["picture_decision_kernel [block slice: mini-GOP release decision]"], slice_spec=[PERIOD, RELEASE],
                  keep_bodies=["verif_c03_release"], min_obligations=10, cover_functions=[], timeout=600, mem_gb=16,
                  what="release decision of the pre-assignment buffer: released exactly when it holds the EOS picture, an intra "
                       "picture, a full mini-GOP, or in low delay; an EOS buffer is released in full whatever its fill level "
                       "(else the tail of a stream would never be coded)",
                  assumptions=["block slice: the statements of the release branch after the first mini-GOP set-up are dropped"]))
UNITS.append(Unit(uid="U03.6.window_map", prop="C03", harness="harness/c19_intra.c", entry="h_window", mode="plain", defines=["U03_WINDOW"],
                  functions=["handle_incomplete_picture_window_map"], keep_bodies=["handle_incomplete_picture_window_map"],
                  min_obligations=20, canaries=1, cover_functions=["handle_incomplete_picture_window_map"], timeout=600, mem_gb=16, unwind=8,
                  what="an EOS-flushed incomplete buffer is cut into mini-GOPs without losing a picture: given mini-GOPs contiguous "
                       "from picture 0, the function leaves them contiguous and the last one ends at the last buffered picture "
                       "(<= 6 mini-GOPs already built, <= 64 pictures, witness index)"))
for _uid, _defs, _file in (("U03.7.copy_header_api", [], "EbEncHandle.c"), ("U03.7.copy_header_overlay", ["U03_COPY_RCO"], "EbResourceCoordinationProcess.c")):
    UNITS.append(Unit(uid=_uid, prop="C03", harness="harness/c03_copyhdr.c", entry="h_copyhdr", mode="plain", defines=_defs,
                      functions=["copy_input_buffer [%s]" % _file], keep_bodies=["copy_input_buffer"], replace_calls={"copy_frame_buffer": "stub_copy_frame", "copy_metadata_buffer": "stub_copy_md"}, min_obligations=20, canaries=1,
                      cover_functions=[], timeout=600, mem_gb=16, unwind=4,
                      what="header copy of a submitted picture (%s): pts, flags, picture type, QP, size fields and tick count of "
                           "the copy equal the caller's; no metadata => NULL; the caller's header is untouched" % _file,
                      assumptions=["pixel and metadata deep copies have their bodies removed (C21 units)"]))
META = {"C03": {
    "level": "proof",
    "explanation": "What the last kernel does to each picture and each temporal unit, on mechanical block slices of "
                   "packetization_kernel, plus the pts comparator. The N-in/N-out history of the five kernels is not "
                   "covered.",
    "not_covered": ["exactly N packets for N pictures, k-th packet <-> k-th picture, recon count (histories of "
                    "resource coordination / picture decision / recon output)",
                    "that terminating_picture_number is set correctly upstream"],
}}

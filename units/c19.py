from engine.core import Unit

H = "harness/c19_intra.c"
PD = "Source/Lib/Encoder/Codec/EbPictureDecisionProcess.c"
RCO = "Source/Lib/Encoder/Codec/EbResourceCoordinationProcess.c"
PK = "Source/Lib/Encoder/Codec/EbPacketizationProcess.c"
UNITS = [
    Unit(uid="U19.1.period", prop="C19", harness=H, entry="h_period", mode="plain", defines=["U19_PERIOD"],
         functions=["picture_decision_kernel [block slice: intra period placement]"],
         slice_spec=[{"kind": "slice", "file": PD, "func_re": r"^void\* picture_decision_kernel\(",
                      "first": "// If the Intra period length is 0, then introduce an intra for every picture",
                      "last": "// Determine if Pictures can be released from the Pre-Assignment Buffer",
                      "name": "verif_c19_period",
                      "params": "SequenceControlSet *scs_ptr, PictureParentControlSet *pcs_ptr, EncodeContext *encode_context_ptr"}],
         keep_bodies=["verif_c19_period"], min_obligations=20, cover_functions=[], timeout=600, mem_gb=16,
         what="placement rule + division-free placement lemma: with P > 0 a picture is flagged (IDR/CRA per refresh type) "
              "exactly when its display position is the next multiple of P+1; P == 0: every picture; P == -1: none; the "
              "period position invariant is re-established (all 32-bit P, 62-bit positions)",
         assumptions=["block slice; base case (position reset at picture 0) and scene-change detection being rejected by "
                      "set_parameter are cited, not proved"]),
    Unit(uid="U19.4.flags", prop="C19", harness=H, entry="h_flags", mode="plain", defines=["U19_FLAGS"],
         functions=["resource_coordination_kernel [block slice: per-picture control flags]"],
         slice_spec=[{"kind": "slice", "file": RCO, "func_re": r"^void \*resource_coordination_kernel\(",
                      "first": "// Set Picture Control Flags", "last": "pcs_ptr->qp_on_the_fly     = EB_FALSE;",
                      "name": "verif_c19_flags", "params": "PictureParentControlSet *pcs_ptr, SequenceControlSet *scs_ptr"}],
         keep_bodies=["verif_c19_flags"], min_obligations=10, cover_functions=[], timeout=600, mem_gb=16,
         what="idr_flag == (first picture || application forces a key picture) for ARBITRARY prior content of the recycled "
              "picture control set; cra/scene-change/qp-on-the-fly flags reset"),
    Unit(uid="U19.5.sps_at_key", prop="C19", harness=H, entry="h_sps", mode="plain", defines=["U19_SPS"],
         functions=["packetization_kernel [block slice: sequence header emission]"],
         slice_spec=[{"kind": "slice", "file": PK, "func_re": r"^void \*packetization_kernel\(",
                      "first": "size_t metadata_sz = 0;", "last": "EB_AV1_METADATA_TYPE_HDR_MDCV);", "epilogue": ["}"],
                      "name": "verif_c19_sps",
                      "params": "PictureControlSet *pcs_ptr, SequenceControlSet *scs_ptr, FrameHeader *frm_hdr"}],
         replace_calls={"encode_sps_av1": "stub_encode_sps", "write_metadata_av1": "stub_write_metadata"},
         keep_bodies=["verif_c19_sps"], min_obligations=5, cover_functions=[], timeout=600, mem_gb=16,
         what="the sequence header is written with every key frame, whatever its decode order, once, before the metadata "
              "(also C02: 'sequence header at every key frame')"),
    Unit(uid="U19.3.rps_key", prop="C19", harness=H, entry="h_rps", mode="plain", defines=["U19_RPS"],
         functions=["av1_generate_rps_info", "set_key_frame_rps"], keep_bodies=["av1_generate_rps_info", "set_key_frame_rps"],
         min_obligations=50, cover_functions=[], timeout=900, mem_gb=16, unwind=10,
         what="a key frame (IDR I-slice) at every hierarchical depth 0..5: coded as KEY_FRAME, shown at once, never "
              "re-shown, layer toggles restart at 0 (nothing before the key frame influences the reference rotation)"),
    Unit(uid="U19.3.rps_type", prop="C19", harness=H, entry="h_rps_type", mode="plain", defines=["U19_RPS"],
         functions=["av1_generate_rps_info"], keep_bodies=["av1_generate_rps_info", "set_key_frame_rps"],
         checks=["--no-standard-checks"], min_obligations=2, cover_functions=[], timeout=900, mem_gb=16, unwind=10,
         what="frame type of every picture: KEY iff IDR I-slice, INTRA_ONLY iff non-IDR I-slice, INTER otherwise; "
              "intra_only == I slice (functional assertions only: the reference-list body runs from an arbitrary "
              "context, so its memory-safety obligations are not generated in this unit)",
         assumptions=["built-in bounds / pointer checks switched off for this unit (arbitrary decision context)"]),
]
META = {"C19": {
    "level": "proof",
    "explanation": "Placement rule and period invariant on a block slice of picture_decision_kernel with a "
                   "division-free placement lemma; per-picture IDR flag initialisation on recycled control sets; "
                   "sequence header emission with every key frame.",
    "not_covered": ["that decoding from a key-frame packet reproduces the same pictures (needs a decoder)",
                    "the key-frame reference reset in av1_generate_rps_info (planned unit)",
                    "interaction with the pre-assignment buffer / hierarchical levels / overlays"],
}}

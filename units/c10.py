from engine.core import Unit

H = "harness/c10_reader.c"
FR = {"kind": "slice", "file": "Source/Lib/Decoder/Codec/EbDecParseObu.c", "func_re": r"^EbErrorType decode_multiple_obu\(",
      "first": "status = read_obu_header_size(&bs, &obu_header, data_size, &length_size);",
      "last": "dec_bits_init(&bs, *data, payload_size);", "last_occurrence": 0, "allow": ["return"], "ret": "EbErrorType",
      "name": "verif_c10_framing", "params": "uint8_t **data, size_t data_size, uint32_t is_annexb",
      "prologue": ["Bitstrm bs; EbErrorType status = EB_ErrorNone; ObuHeader obu_header; size_t payload_size = 0, length_size = 0;",
                   "obu_header.payload_size = 0;"],
      "epilogue": ["g_payload = payload_size; g_left = data_size; return EB_ErrorNone;"]}
UNITS = [
    Unit(uid="U10.1.bit_reader", prop="C10", harness=H, entry="h_bits", mode="plain", defines=["U10_BITS"],
         functions=["dec_bits_init", "dec_get_bits", "get_position"], min_obligations=30, cover_functions=[], timeout=600,
         unwind=4,
         what="for every buffer length 1..24 and content, and any three reads within the buffer's bit budget: no byte "
              "outside the buffer is read (given the reader's 8 bytes of slack - see known finding), n-bit results, exact "
              "position"),
    Unit(uid="U10.2.value_readers", prop="C10", harness=H, entry="h_values", mode="plain", defines=["U10_VALUES"],
         functions=["dec_get_bits_ns", "dec_get_bits_su", "dec_get_bits_uvlc", "dec_get_bits_le", "dec_get_bits_leb128"],
         min_obligations=30, cover_functions=[], timeout=600, unwind=34,
         what="ns(n) < n, su(n) in the signed n-bit range (n >= 1), uvlc() bounded consumption, le(n), leb128 length 1..8, "
              "for any buffer content"),
    Unit(uid="U10.3.obu_framing", prop="C10", harness=H, entry="h_framing", mode="plain", defines=["U10_FRAMING"],
         functions=["decode_multiple_obu [block slice: OBU header / size bookkeeping]"], slice_spec=[FR],
         replace_calls={"read_obu_header_size": "stub_read_obu_header_size", "dec_bits_init": "stub_bits_init"},
         keep_bodies=["verif_c10_framing"], min_obligations=10, canaries=2, cover_functions=[], timeout=600, unwind=3,
         what="after an OBU header of any claimed length is consumed: the pointer is inside the input, the remaining-size "
              "counter equals the bytes left (no size_t wrap), and the OBU is accepted only if its payload fits",
         assumptions=["block slice; header parser replaced by a havoc contract (any header / size-field length)"]),
]
META = {"C10": {
    "level": "proof",
    "explanation": "Memory-safety and value-range contracts on the readers through which every input byte is accessed "
                   "(bit reader, derived readers) and on the OBU framing bookkeeping of decode_multiple_obu. The ~12 kLOC "
                   "of block/tile parsing between these layers is not covered: the claim is 'no out-of-buffer access to "
                   "the input bytes and no UB in the reader primitives', not full robustness.",
    "not_covered": ["symbol reader (od_ec_dec_*) bounds - see C25 for its arithmetic", "payload parsers",
                    "re-allocation on a changed sequence header (seed C10-m1)", "hang on errors before the pointer advances"],
}}

from engine.core import Unit

UNITS = [
    Unit(uid="U26.1.sse8", prop="C26", harness="harness/c26_sse.c", entry="h_sse", mode="plain",
         functions=["psnr_calculations [8-bit branch]"], keep_bodies=["psnr_calculations"], unwind=5, min_obligations=50,
         cover_functions=[], timeout=1200, mem_gb=16, backend="cadical",
         kind="bounded", bound="visible picture 2x2 luma (1x1 chroma, 4:2:0), padding <= 1, origins <= 1, strides <= 4, all "
                              "sample values symbolic, source = input or saved (temporally filtered) picture, recon = "
                              "reference or recon picture",
         what="luma/Cb/Cr SSE written to the picture == the definition (sum of squared differences over the visible "
              "samples, truncated to 32 bits), for every content, stride, origin and padding within the bound"),
]
META = {"C26": {
    "level": "other",
    "explanation": "bounded: psnr_calculations (8-bit) against the SSE definition computed by ghost loops, on small "
                   "symbolic pictures; the hand-off of the three values to the packet is a statement range of "
                   "packetization_kernel (C03 slice).",
    "not_covered": ["10-bit branches", "that the reconstruction compared is the final (post-filter) one — ordering of "
                    "the kernels (seed C26-m2) is a pipeline history", "equality of encoder recon and decoded picture (C01)"],
}}

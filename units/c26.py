from engine.core import Unit

UNITS = [
    Unit(uid="U26.1.sse8", prop="C26", harness="harness/c26_sse.c", entry="h_sse", mode="plain",
         functions=["psnr_calculations [8-bit branch]"], keep_bodies=["psnr_calculations"], unwind=5, min_obligations=50,
         cover_functions=[], timeout=1200, mem_gb=16, backend="cadical",
         kind="bounded", bound="visible picture 2x2 luma (1x1 chroma, 4:2:0), padding <= 1, origins <= 1, strides <= 4, all "
                              "sample values symbolic, source = input or saved (temporally filtered) picture, recon = "
                              "reference or recon picture",
         what="luma/Cb/Cr SSE written to the picture == the definition (sum of squared differences over the visible "
              "samples, truncated to 32 bits), for every content, stride, origin and padding within the bound"),
]
from units.c03 import HDR, DRAIN, STUBS as STUBS03
UNITS.append(Unit(
    uid="U26.2.handoff", prop="C26", harness="harness/c03_packet.c", entry="h_header", mode="plain", defines=["U03_HEADER"],
    functions=["packetization_kernel [block slice: packet header]"], slice_spec=[HDR, DRAIN], replace_calls=STUBS03,
    keep_bodies=["verif_c03_header"], min_obligations=20, cover_functions=[], timeout=300,
    what="the three SSE values computed for the picture are handed to the output packet, each plane to its own field, "
         "exactly when statistics reporting is on, and are 0 otherwise (same unit as U03.1)",
    assumptions=["block slice: everything of the kernel outside the range is dropped"]))
META = {"C26": {
    "level": "other",
    "explanation": "bounded: psnr_calculations (8-bit) against the SSE definition computed by ghost loops, on small "
                   "symbolic pictures; the hand-off of the three values to the packet is a statement range of "
                   "packetization_kernel (C03 slice).",
    "not_covered": ["10-bit branches", "that the reconstruction compared is the final (post-filter) one — ordering of "
                    "the kernels (seed C26-m2) is a pipeline history", "equality of encoder recon and decoded picture (C01)"],
}}

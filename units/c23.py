from engine.core import Unit

SRM = "Source/Lib/Common/Codec/EbSystemResourceManager.c"
H = "harness/c23_srm.c"
UNITS = []


def l0(uid, entry, fn, what, min_ob=10):
    UNITS.append(Unit(uid=uid, prop="C23", harness=H, entry=entry, functions=[fn], mode="dfcc", enforce=fn,
                      defines=["C23_L0"], min_obligations=min_ob, what=what))


l0("U23.1.empty", "h_cb_empty", "svt_circular_buffer_empty_check",
   "returns TRUE iff head==tail and the head slot is NULL; writes nothing")
l0("U23.1.pop", "h_cb_pop", "svt_circular_buffer_pop_front",
   "returns the head element, NULLs exactly that slot, head advances modulo capacity, count-1; frame = those four")
l0("U23.1.pushb", "h_cb_pushb", "svt_circular_buffer_push_back",
   "stores at tail, tail advances modulo capacity, count+1; every other slot untouched (frame)")
l0("U23.1.pushf", "h_cb_pushf", "svt_circular_buffer_push_front",
   "head retreats modulo capacity and receives the element, count+1; every other slot untouched (frame)")
l0("U23.2.push", "h_fifo_push", "svt_fifo_push_back",
   "appends: last==w, w->next==NULL, first unchanged unless empty, old last linked to w")
l0("U23.2.pop", "h_fifo_pop", "svt_fifo_pop_front",
   "returns first; first=first->next; last=NULL iff it was the only element")
l0("U23.2.peak", "h_fifo_peak", "svt_fifo_peak_front", "TRUE iff first==NULL; writes nothing", min_ob=5)

UNITS.append(Unit(
    uid="U23.3.assignation", prop="C23", harness=H, entry="h_assignation",
    functions=["svt_muxing_queue_assignation"], mode="dfcc", enforce="svt_muxing_queue_assignation",
    replace=["svt_circular_buffer_empty_check", "svt_circular_buffer_pop_front", "svt_fifo_push_back"],
    loop_contracts=1, defines=["C23_L1"], canaries=2, min_obligations=60,
    slice_spec=[{"kind": "annot", "file": SRM, "func_re": r"^static EbErrorType svt_muxing_queue_assignation\(",
                 "loop": "(svt_circular_buffer_empty_check(queue_ptr->process_queue) == EB_FALSE)) {",
                 "name": "assignation_pair", "text": "VERIF_LOOP_ASSIGNATION"}],
    what="unbounded (loop contract): pairs waiting objects with waiting consumers one to one until one queue is "
         "exhausted; each pair = one push on the consumer's FIFO under that FIFO's mutex followed by one post on "
         "that FIFO's semaphore; terminates; lock balance",
    assumptions=["type invariant of queue contents: every element of a process queue is a live EbFifo, of an "
                 "object queue a live EbObjectWrapper (is_fresh in the abstract pop contract)"]))

UNITS.append(Unit(
    uid="U23.1.ri", prop="C23", harness="harness/c23_ri.c", entry="h_ri", mode="plain",
    functions=["svt_circular_buffer_empty_check", "svt_circular_buffer_pop_front", "svt_circular_buffer_push_back",
               "svt_circular_buffer_push_front"], min_obligations=30, cover_functions=[],
    assumptions=["circular buffer capacity <= 4096 (precondition of the buffer contracts; the encoder's queues hold "
                 "at most a few hundred entries)"],
    what="representation invariant of the circular buffer for an arbitrary witness slot: each operation preserves "
         "it, moves exactly one element and keeps the FIFO position of every other element; empty_check agrees "
         "with count==0"))
L2R = ["svt_circular_buffer_push_back", "svt_circular_buffer_push_front", "svt_muxing_queue_assignation"]
for uid, entry, fn, what in [
    ("U23.4.mq_pushb", "h_mq_pushb", "svt_muxing_queue_object_push_back",
     "queues exactly the object at the back of the object queue, then runs one assignation on this queue (in that order)"),
    ("U23.4.mq_pushf", "h_mq_pushf", "svt_muxing_queue_object_push_front",
     "queues exactly the object at the front of the object queue, then runs one assignation on this queue"),
    ("U23.4.relproc", "h_relproc", "svt_release_process",
     "under the muxing queue's mutex: the FIFO goes to the front of the process queue of its own queue, then one "
     "assignation; mutex released on return"),
]:
    UNITS.append(Unit(uid=uid, prop="C23", harness=H, entry=entry, functions=[fn], mode="dfcc", enforce=fn,
                      replace=[r for r in L2R], defines=["C23_L2"], min_obligations=20, what=what))

L3R = ["svt_muxing_queue_object_push_back", "svt_muxing_queue_object_push_front", "svt_release_process",
       "svt_fifo_pop_front", "svt_fifo_peak_front"]
for uid, entry, fn, defs, repl, what in [
    ("U23.5.get_full", "h_get_full", "svt_get_full_object", [], L3R,
     "announces itself once, then blocks once on its own semaphore holding no mutex, then under the FIFO mutex pops "
     "the HEAD (posting order) unless quit_signal: then NULL + EB_NoErrorFifoShutdown; semaphore invariant kept"),
    ("U23.5.get_empty", "h_get_empty", "svt_get_empty_object", ["C23_L3_GETEMPTY"],
     [r for r in L3R if r != "svt_fifo_pop_front"],
     "same protocol on a producer FIFO; the wrapper handed out is the head, with live_count 0 and release enabled"),
    ("U23.5.get_full_nb", "h_get_full_nb", "svt_get_full_object_non_blocking", ["C23_L3_NONBLOCKING"],
     L3R + ["svt_get_full_object"],
     "never waits on a semaphore itself; empty or shut-down FIFO => NULL immediately; otherwise delegates once"),
    ("U23.4.release", "h_release", "svt_release_object", [], L3R,
     "live_count' = max(live-1,0); the wrapper goes back to the empty queue of its own resource iff release enabled "
     "and live_count' == 0, exactly once, under the empty queue's mutex; then marked released"),
    ("U23.4.post", "h_post", "svt_post_full_object", [], L3R,
     "exactly one push of exactly this wrapper at the back of its resource's full queue, under that queue's mutex"),
    ("U23.4.inc", "h_inc", "svt_object_inc_live_count", [], L3R, "live_count += n under the empty queue's mutex"),
    ("U23.4.enable", "h_enable", "svt_object_release_enable", [], L3R, "release_enable = TRUE under the mutex"),
    ("U23.4.disable", "h_disable", "svt_object_release_disable", [], L3R, "release_enable = FALSE under the mutex"),
    ("U23.6.fifo_shutdown", "h_fifo_shutdown", "svt_fifo_shutdown", ["C23_L3_SHUTDOWN"], L3R,
     "quit_signal set under the FIFO mutex, then (mutex released) exactly one post on this FIFO's semaphore"),
]:
    UNITS.append(Unit(uid=uid, prop="C23", harness=H, entry=entry, functions=[fn], mode="dfcc", enforce=fn,
                      replace=list(repl), defines=["C23_L3"] + defs, min_obligations=20, what=what, timeout=300))
UNITS.append(Unit(
    uid="U23.6.shutdown", prop="C23", harness=H, entry="h_shutdown", functions=["svt_shutdown_process"], mode="dfcc",
    enforce="svt_shutdown_process", replace=["svt_fifo_shutdown", "svt_system_resource_get_consumer_fifo"],
    defines=["C23_L3", "C23_L3_SHUTDOWN_LOOP"], loop_contracts=1, canaries=2, min_obligations=20,
    slice_spec=[{"kind": "annot", "file": SRM, "func_re": r"^EbErrorType svt_shutdown_process\(",
                 "loop": "for (unsigned int i = 0; i < resource_ptr->full_queue->process_total_count; i++) {",
                 "name": "shutdown_all", "text": "VERIF_LOOP_SHUTDOWN"}],
    what="unbounded (loop contract): every consumer FIFO of the resource is shut down exactly once; NULL or "
         "partially constructed resource => nothing"))

META = {"C23": {
    "level": "proof",
    "explanation": "Representation-invariant and exact functional contracts on every operation of "
                   "EbSystemResourceManager.c; each operation runs under the structure's mutex (ghost lock model "
                   "proves which mutex is held at every mutation), so each is an atomic step and an invariant "
                   "preserved by every step holds in every interleaving.",
    "assumptions": ["atomic-step meta-argument (not machine-checked): every access to SRM fields is inside "
                    "EbSystemResourceManager.c and inside a region where the ghost model shows the guarding mutex held",
                    "pthread mutexes give mutual exclusion; semaphores never lose a post (EbThreads.c not verified)"],
    "not_covered": ["semaphore fairness", "event traces of real encodes"],
}}

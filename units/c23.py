from engine.core import Unit

SRM = "Source/Lib/Common/Codec/EbSystemResourceManager.c"
H = "harness/c23_srm.c"
UNITS = []


def l0(uid, entry, fn, what, min_ob=10):
    UNITS.append(Unit(uid=uid, prop="C23", harness=H, entry=entry, functions=[fn], mode="dfcc", enforce=fn,
                      defines=["C23_L0"], min_obligations=min_ob, what=what))


l0("U23.1.empty", "h_cb_empty", "svt_circular_buffer_empty_check",
   "returns TRUE iff head==tail and the head slot is NULL; writes nothing")
l0("U23.1.pop", "h_cb_pop", "svt_circular_buffer_pop_front",
   "returns the head element, NULLs exactly that slot, head advances modulo capacity, count-1; frame = those four")
l0("U23.1.pushb", "h_cb_pushb", "svt_circular_buffer_push_back",
   "stores at tail, tail advances modulo capacity, count+1; every other slot untouched (frame)")
l0("U23.1.pushf", "h_cb_pushf", "svt_circular_buffer_push_front",
   "head retreats modulo capacity and receives the element, count+1; every other slot untouched (frame)")
l0("U23.2.push", "h_fifo_push", "svt_fifo_push_back",
   "appends: last==w, w->next==NULL, first unchanged unless empty, old last linked to w")
l0("U23.2.pop", "h_fifo_pop", "svt_fifo_pop_front",
   "returns first; first=first->next; last=NULL iff it was the only element")
l0("U23.2.peak", "h_fifo_peak", "svt_fifo_peak_front", "TRUE iff first==NULL; writes nothing", min_ob=5)

UNITS.append(Unit(
    uid="U23.3.assignation", prop="C23", harness=H, entry="h_assignation",
    functions=["svt_muxing_queue_assignation"], mode="dfcc", enforce="svt_muxing_queue_assignation",
    replace=["svt_circular_buffer_empty_check", "svt_circular_buffer_pop_front", "svt_fifo_push_back"],
    loop_contracts=1, defines=["C23_L1"], canaries=2, min_obligations=60,
    slice_spec=[{"kind": "annot", "file": SRM, "func_re": r"^static EbErrorType svt_muxing_queue_assignation\(",
                 "loop": "(svt_circular_buffer_empty_check(queue_ptr->process_queue) == EB_FALSE)) {",
                 "name": "assignation_pair", "text": "VERIF_LOOP_ASSIGNATION"}],
    what="unbounded (loop contract): pairs waiting objects with waiting consumers one to one until one queue is "
         "exhausted; each pair = one push on the consumer's FIFO under that FIFO's mutex followed by one post on "
         "that FIFO's semaphore; terminates; lock balance",
    assumptions=["type invariant of queue contents: every element of a process queue is a live EbFifo, of an "
                 "object queue a live EbObjectWrapper (is_fresh in the abstract pop contract)"]))

META = {"C23": {
    "level": "proof",
    "explanation": "Representation-invariant and exact functional contracts on every operation of "
                   "EbSystemResourceManager.c; each operation runs under the structure's mutex (ghost lock model "
                   "proves which mutex is held at every mutation), so each is an atomic step and an invariant "
                   "preserved by every step holds in every interleaving.",
    "assumptions": ["atomic-step meta-argument (not machine-checked): every access to SRM fields is inside "
                    "EbSystemResourceManager.c and inside a region where the ghost model shows the guarding mutex held",
                    "pthread mutexes give mutual exclusion; semaphores never lose a post (EbThreads.c not verified)"],
    "not_covered": ["semaphore fairness", "event traces of real encodes"],
}}

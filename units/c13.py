from engine.core import Unit

GEN = ("python3 {verif}/engine/gen_layout.py EbSvtAv1EncConfiguration EbSvtAv1Enc.h {udir}/c13_layout.h "
       "-I{repo}/Source/API")
UNITS = [
    Unit(uid="U13.1.defaults", prop="C13", harness="harness/c13_defaults.c", entry="h_defaults", mode="plain",
         functions=["svt_svt_enc_init_parameter"], defines=["C13_INCLUDE_REAL"], pre_cmds=[GEN],
         keep_bodies=["svt_svt_enc_init_parameter"], min_obligations=130, cover_functions=["svt_svt_enc_init_parameter"],
         cover_allow=[r"EB_ErrorBadParameter|SVT_LOG"], native=False, timeout=600,
         what="two-run: for two independent arbitrary prior contents of the caller's configuration memory, every "
              "one of the struct's leaf fields (list generated from DWARF on each run) is equal after the call"),
]
META = {"C13": {
    "level": "proof",
    "explanation": "Two-run relational contract on svt_svt_enc_init_parameter: all fields of the returned "
                   "configuration are a function of the library alone. Loop-free, full domain (all 2x1816 prior bytes "
                   "symbolic): complete for this function.",
    "not_covered": ["'yields identical output' beyond the configuration level (identical configuration => identical "
                    "bytes is C04, not claimed)"],
}}

from engine.core import Unit

H = "harness/c24_seg.c"
UNITS = [
    Unit(uid="U24.1.lemmas", prop="C24", harness=H, entry="h_lemmas", mode="plain", defines=["U24_LEMMAS"],
         functions=["BAND_INDEX", "ROW_INDEX", "SEGMENT_INDEX", "BAND_TOTAL_COUNT"], min_obligations=8, cover_functions=[],
         native=True, timeout=900, backend="cadical",
         what="index lemmas on the real macros for all W<=65, H<=34 and all clamped grids: in range; left / upper / "
              "upper-right neighbours' segments are in the same or previous row with band <=, upper-right exactly equal"),
    Unit(uid="U24.3.assign", prop="C24", harness=H, entry="h_assign", mode="plain", defines=["U24_ASSIGN"],
         functions=["assign_enc_dec_segments"], keep_bodies=["assign_enc_dec_segments"], min_obligations=100, canaries=2,
         cover_functions=["assign_enc_dec_segments"], cover_allow=[r"row_array\[0\]\.current_seg_index|row_array\[taskPtr->enc_dec_segment_row\]|row_array\[row_index\]|input_type = ENCDEC_TASKS_CONTINUE|default:"],
         unwind=2, timeout=900, mem_gb=16,
         what="CONTINUE step from an arbitrary state (geometry up to 37 rows x 97 bands, arbitrary witness segment): "
              "decrements exactly the right and bottom-left counters, each under the mutex of the row that owns it; "
              "starts a segment only when its counter reached 0, exactly once; both ready => one feedback task for the row below",
         trusted=["ghost model of EbThreads.c", "svt_get_empty_object / svt_post_full_object as logging stubs (C23 contracts)"]),
    Unit(uid="U24.2.init", prop="C24", harness=H, entry="h_init", mode="plain", defines=["U24_INIT", "MAXW=3", "MAXH=2"], backend="cadical",
         functions=["enc_dec_segments_init"], min_obligations=100, cover_functions=[], unwind=24, timeout=900, mem_gb=20, trusted=["byte-loop model of memset (CBMC built-in is wrong for symbolic lengths)"],
         kind="bounded", bound="fully symbolic geometry: pictures of 1..3 x 1..2 superblocks, every requested grid",
         what="tables of the real enc_dec_segments_init against their set definitions: counts add up to W*H, row start / "
              "end = segments of the row's first / last SB, starting segment non-empty, dependency counter = number of "
              "non-empty predecessors"),
]
# enumerated family: one unit per picture width; heights, requested segment columns and rows enumerated with constant
# loop bounds inside the harness (h_init_enum), witness row / segment symbolic
for _w in range(1, 11):
    _q = _w <= 8
    UNITS.append(Unit(
        uid="U24.2.init_w%d" % _w, prop="C24", harness=H, entry="h_init_enum", mode="plain", backend="cadical",
        defines=["U24_INIT", "MAXW=%d" % _w, "WLO=%d" % _w, "WHI=%d" % _w, "MAXH=6", "MAXSC=4", "MAXSR=4"],
        tier="quick" if _q else "thorough",
        functions=["enc_dec_segments_init"], min_obligations=100, cover_functions=[], unwind=160, timeout=1500, mem_gb=16,
        trusted=["byte-loop model of memset (CBMC built-in is wrong for symbolic lengths)"], kind="bounded",
        bound="picture width %d SB; heights 1..6, requested segment grid 1..4 x 1..4, every combination, constant loop "
              "bounds (a larger thorough box - heights to 8, grid 6 x 6 - was tried and needs > 25 min per width)" % _w,
        what="same table obligations as U24.2.init for every geometry of the box (enumerated, not symbolic)"))
META = {"C24": {
    "level": "proof",
    "explanation": "Geometric lemmas on the real index macros for all picture sizes and grids; the assignment step as an "
                   "atomic step under the row mutexes from an arbitrary state; table construction compared with its "
                   "set-theoretic definition on bounded pictures. 'Always completes' follows by a counting argument "
                   "(acyclic by the lemmas, counters = in-degree by U24.2, each completion decrements each successor "
                   "once by U24.3) that is written here but not machine-checked.",
    "not_covered": ["the SB enumeration loop inside enc_dec_kernel (inline in the kernel)",
                    "completion / liveness as a machine-checked statement (its necessary condition 'every segment but the "
                    "first has a predecessor' is an obligation of U24.2 and found the one-SB-wide hang, fixed in 36c4686)"],
}}

from engine.core import Unit

ENC = "@repo/Source/Lib/Encoder/Codec/EbEntropyCoding.c"
DECS = ["@repo/Source/Lib/Decoder/Codec/EbDecBitstream.c", "@repo/Source/Lib/Decoder/Codec/EbDecParseObu.c"]
H = "harness/c02_framing.c"
UNITS = []
for uid, entry, fns, what, unwind in [
    ("U02.1.leb128", "h_leb", ["svt_aom_uleb_size_in_bytes", "svt_aom_uleb_encode", "dec_get_bits_leb128", "dec_bits_init", "dec_get_bits"],
     "leb128 size = AV1 4.10.5, continuation bits, value bits per byte, and decoder(encoder(v)) == v for all v < 2^56; larger values refused", 12),
    ("U02.2.obu_header", "h_obu", ["write_obu_header", "read_obu_header"],
     "OBU header byte(s) per AV1 5.3.2 for every OBU type and extension; the decoder's reader returns the same fields", 12),
    ("U02.4.td", "h_td", ["encode_td_av1", "write_obu_header", "write_uleb_obu_size"],
     "temporal delimiter is exactly {0x12,0x00}, nothing else written", 17),
    ("U02.3.size_field", "h_size_field", ["write_uleb_obu_size", "svt_aom_uleb_encode", "dec_get_bits_leb128"],
     "the obu_size field decodes to exactly the payload length, for every 32-bit payload size", 12),
]:
    UNITS.append(Unit(uid=uid, prop="C02", harness=H, entry=entry, functions=fns, mode="plain", extra_src=[ENC] + DECS,
                      keep_bodies=fns + ["spec_leb_size"], unwind=unwind, min_obligations=10, cover_functions=[],
                      timeout=600, native=False, what=what,
                      trusted=["the decoder's bit reader prefetches 8 bytes: lemma buffers are padded (the over-read itself is C10's finding F5)"]))
for _h in (0, 1000, 2041, 2044, 2045, 2046, 2047):
    UNITS.append(Unit(
        uid="U02.5.count_tu.h%d" % _h, prop="C02", harness="harness/c02_tu.c", entry="h_count", mode="plain",
        functions=["count_frames_in_next_tu", "get_reorder_queue_entry", "get_reorder_queue_pos"],
        keep_bodies=["count_frames_in_next_tu"], defines=["TU_N=8", "HEAD_CONST=%d" % _h],
        thorough_defines=["TU_N=12", "HEAD_CONST=%d" % _h], canaries=3, min_obligations=40, timeout=600, mem_gb=16,
        unwind=14, backend="cadical", cover_functions=["count_frames_in_next_tu"],
        cover_allow=[r"^return i;$|while \(i <"], kind="bounded",
        bound="temporal unit of at most 8 frames quick / 12 thorough; queue head %d of 2048 (heads 0, 1000, 2041, "
              "2044..2047 each have a unit, so the wrap falls at every position inside the unit)" % _h,
        what="exactly one displayed frame per temporal unit: entries head..head+k-2 complete and hidden, entry head+k-1 complete and shown, wrap-around at 2048 included; 0 iff incomplete; byte total"))

from units.c03 import HDR, DRAIN, STUBS as STUBS03
SHOWEX = {"kind": "slice", "file": "Source/Lib/Encoder/Codec/EbPacketizationProcess.c", "func_re": r"^void \*packetization_kernel\(",
          "first": "if (pcs_ptr->parent_pcs_ptr->has_show_existing) {", "last": "svt_metadata_array_free(&temp_entry->metadata);",
          "epilogue": ["}"], "name": "verif_c02_showex",
          "params": "PictureControlSet *pcs_ptr, SequenceControlSet *scs_ptr, EncodeContext *encode_context_ptr, PacketizationReorderEntry *queue_entry_ptr"}
UNITS.append(Unit(
    uid="U02.6.showex_stage", prop="C02", harness="harness/c03_packet.c", entry="h_showex", mode="plain", defines=["U02_SHOWEX"],
    functions=["packetization_kernel [block slice: show-existing header staging]"], slice_spec=[HDR, DRAIN, SHOWEX],
    replace_calls=dict(STUBS03, realloc_output_bitstream="stub_realloc_bs", bitstream_reset="stub_bs_reset",
                       write_metadata_av1="stub_write_metadata", write_frame_header_av1="stub_write_fh",
                       svt_metadata_array_free="stub_md_free", svt_metadata_size="stub_md_size"),
    keep_bodies=["verif_c02_showex"], canaries=2, min_obligations=10, cover_functions=[], timeout=300,
    what="a picture that re-shows a stored frame stages, in the (recycled) queue entry's own bitstream: reset, then "
         "the metadata OBU, then a show_existing frame header - the reset happens exactly once and before the writes "
         "whether or not metadata is present (a stale header would give two displayed frames in one temporal unit)",
    assumptions=["block slice; the writers are logging stubs (their byte-level output is not checked here)"]))
UNITS.append(Unit(
    uid="U02.7.packet_type", prop="C02", harness="harness/c03_packet.c", entry="h_header", mode="plain", defines=["U03_HEADER"],
    functions=["packetization_kernel [block slice: packet header]"], slice_spec=[HDR, DRAIN], replace_calls=STUBS03,
    keep_bodies=["verif_c03_header"], min_obligations=20, cover_functions=[], timeout=300,
    what="the picture type reported with a packet agrees with the frame it carries: KEY exactly for a reference IDR "
         "picture (the only frames written with a sequence header, U19.5), otherwise the slice type / non-reference "
         "(same unit as U03.1)",
    assumptions=["block slice: everything of the kernel outside the range is dropped"]))
META = {"C02": {
    "level": "proof",
    "explanation": "Framing layer: inverse-pair lemmas between the encoder's writers and the decoder's readers (leb128, "
                   "OBU header, size field) with the AV1 syntax as independent spec, the temporal delimiter bytes, and the "
                   "temporal-unit counting function (exactly one displayed frame).",
    "not_covered": ["syntactic validity of frame-header / tile-group payloads", "assembly of the unit bytes (encode_tu) "
                    "and the show-existing path", "F2: stream-header API vs in-band sequence header (known finding, not "
                    "yet under a unit)"],
}}

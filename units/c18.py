from engine.core import Unit

RCF = "Source/Lib/Encoder/Codec/EbRateControlProcess.c"
PARAMS = ("SequenceControlSet *scs_ptr, PictureControlSet *pcs_ptr, FrameHeader *frm_hdr, RateControlContext *context_ptr, "
          "RateControlLayerContext *rate_control_layer_ptr, RateControlIntervalParamContext *rate_control_param_ptr, "
          "RateControlIntervalParamContext *prev_gop_rate_control_param_ptr, "
          "RateControlIntervalParamContext *next_gop_rate_control_param_ptr, RATE_CONTROL rc")
STUBS = {"cqp_qindex_calc_tpl_la": "stub_any_qindex3", "cqp_qindex_calc": "stub_any_qindex3",
         "rc_pick_q_and_bounds": "stub_any_qindex1", "find_fp_qindex": "stub_any_qindex_bd",
         "frame_level_rc_input_picture_vbr": "stub_havoc_qp_rc", "frame_level_rc_input_picture_cvbr": "stub_havoc_qp_rc",
         "rate_control_refinement": "stub_havoc_qp_ref", "process_tpl_stats_frame_kf_gfu_boost": "stub_noop1",
         "setup_segmentation": "stub_noop3"}
UNITS = []
for occ in (0,):
    name = "verif_c18_block%d" % occ
    UNITS.append(Unit(
        uid="U18.4.block%d" % occ, prop="C18", harness="harness/c18_rc.c", entry="h_rc_block", mode="plain",
        functions=["rate_control_kernel [block slice %d: base_q_idx assignment]" % occ], defines=["BLOCK=" + name],
        slice_spec=[{"kind": "slice", "file": RCF, "func_re": r"^void \*rate_control_kernel\(",
                     "first": "if (scs_ptr->static_config.rate_control_mode == 0) {", "first_occurrence": occ,
                     "last": "pcs_ptr->parent_pcs_ptr->picture_qp = pcs_ptr->picture_qp;", "last_occurrence": 1,
                     "name": name, "params": PARAMS}],
        replace_calls=STUBS, keep_bodies=[name], unwind=8, min_obligations=100, cover_functions=[], timeout=900,
        mem_gb=16, native=False,
        what="state transformer of the kernel's quantizer block from an arbitrary state (rate-control maths may return "
             "anything): modes 1/2 => base_q_idx in [qindex(min),qindex(max)] and == qindex(picture_qp in [min,max]); "
             "fixed offsets => exactly clip(qindex(qp)+offset); scaling => clipped; no scaling => qindex(picture QP)",
        assumptions=["block slice: that the kernel reaches the block only with picture_qp <= 63 and nothing after the "
                     "block rewrites base_q_idx is not proved",
                     "rate-control maths replaced by havoc stubs (any qindex / any picture_qp)"]))
UNITS.append(Unit(uid="U18.1.table", prop="C18", harness="harness/c18_rc.c", entry="h_table", mode="plain",
                  functions=["quantizer_to_qindex[]"], defines=["U18_TABLE", "BLOCK=verif_c18_block0"],
                  slice_spec=[{"kind": "slice", "file": RCF, "func_re": r"^void \*rate_control_kernel\(",
                               "first": "if (scs_ptr->static_config.rate_control_mode == 0) {", "first_occurrence": 0,
                               "last": "pcs_ptr->parent_pcs_ptr->picture_qp = pcs_ptr->picture_qp;", "last_occurrence": 1,
                               "name": "verif_c18_block0", "params": PARAMS}],
                  replace_calls=STUBS, keep_bodies=["verif_c18_block0"], min_obligations=3, cover_functions=[],
                  what="QP->qindex table strictly increasing with end points 0 and 255"))
UNITS.append(Unit(uid="U18.5.recode", prop="C18", harness="harness/c18_recode.c", entry="h_recode", mode="plain",
                  functions=["recode_loop_decision_maker"], keep_bodies=["recode_loop_decision_maker", "recode_loop_update_q", "sb_qp_derivation_tpl_la"],
                  unwind=5, canaries=2, min_obligations=40, cover_functions=["recode_loop_decision_maker"], timeout=600, mem_gb=16,
                  kind="bounded", bound="<= 3 superblocks in the per-SB qindex loop (frame-level obligations do not depend on it)",
                  what="recode loop from an arbitrary state with the rate-control decision havoced: a recode writes base_q_idx "
                       "inside [qindex(min_qp), qindex(max_qp)] and picture_qp inside [min_qp, max_qp] on both control sets, "
                       "SB qindex = qindex(picture_qp); no recode leaves them untouched",
                  assumptions=["recode_loop_update_q (EbRateControlProcess.c) replaced by a havoc stub: any q, any decision",
                               "min_qp <= max_qp <= 63 (postcondition of verify_settings, C12)"]))
META = {"C18": {
    "level": "proof",
    "explanation": "Contracts on every site that writes the frame quantizer that is reachable as a function or a "
                   "mechanical block slice: the quantizer block of rate_control_kernel as a state "
                   "transformer with the rate-control maths havoced, and the monotone QP->qindex table.",
    "not_covered": ["svt_av1_set_quantizer's delta-q bump (F9)",
                    "that nothing after the block rewrites base_q_idx (history of the kernel)"],
}}

from engine.core import Unit

TR = ["OS objects modelled as heap cells (stubs/os_objects.h)", "CBMC's malloc/free models with --memory-leak-check"]
GEN = ("python3 {verif}/engine/gen_rtcd.py {repo}/Source/Lib/Common/Codec/common_dsp_rtcd.h {udir}/c06_rtcd_list.h RTCD "
       "$(python3 -c \"import sys; sys.path.insert(0,'{verif}'); from engine import core; "
       "print(' '.join(f for f in core.repo_flags() if f.startswith('-I') or f.startswith('-D')))\")")
UNITS = [
    Unit(uid="U17.1.dispatch_two_run", prop="C17", harness="harness/c06_dispatch.c", entry="h_dispatch", mode="plain",
         functions=["setup_common_rtcd_internal"], pre_cmds=[GEN], keep_bodies=["setup_common_rtcd_internal"],
         remove_bodies=["get_cpu_flags"], replace_calls={"get_cpu_flags_to_use": "stub_cpu_flags_to_use"},
         min_obligations=500, canaries=2, cover_functions=[], timeout=900, mem_gb=16, unwind=64, checks=["--pointer-check", "--bounds-check"],
         what="the process-global dispatch table written by the initialiser is a function of its argument (and the CPU) "
              "only: a second call with equal flags leaves all ~490 pointers identical, so instances with equal CPU flags "
              "cannot change each other's dispatch (two-run)"),
    Unit(uid="U17.3.two_decoders", prop="C17", harness="harness/c15_teardown.c", entry="h_two_decoders", mode="plain",
         functions=["svt_av1_dec_deinit", "svt_av1_dec_deinit_handle", "init_svt_av1_decoder_handle", "EB_MALLOC_DEC"],
         keep_bodies=["svt_av1_dec_deinit", "svt_av1_dec_deinit_handle", "init_svt_av1_decoder_handle"],
         cbmc_flags=["--memory-leak-check"], unwind=6, min_obligations=30, cover_functions=[], timeout=600, trusted=TR,
         kind="bounded", bound="two decoder handles, one allocation each",
         what="two decoder instances: tearing down one does not free, and does not leave dangling, the other's allocations"),
]
META = {"C17": {
    "level": "proof",
    "explanation": "Sequential non-interference only: initialisers of process-global tables are functions of their "
                   "arguments (two-run), the per-instance API-path functions under contract for other properties have "
                   "frames without static-lifetime objects (dfcc assigns checks of C22/C23 units), and a two-instance "
                   "decoder teardown unit (known finding: shared allocation list). Data races are outside sequential "
                   "contracts.",
    "not_covered": ["interleavings / races between instances", "block-geometry tables and dispatch pointers rebuilt from "
                    "a second instance's SB size / CPU flags (F8: argument-dependent globals, observed by reading, no unit)"],
}}

from engine.core import Unit

TR = ["OS objects modelled as heap cells (stubs/os_objects.h)", "CBMC's malloc/free models with --memory-leak-check"]
GEN = ("python3 {verif}/engine/gen_rtcd.py {repo}/Source/Lib/Common/Codec/common_dsp_rtcd.h {udir}/c06_rtcd_list.h RTCD "
       "$(python3 -c \"import sys; sys.path.insert(0,'{verif}'); from engine import core; "
       "print(' '.join(f for f in core.repo_flags() if f.startswith('-I') or f.startswith('-D')))\")")
UNITS = [
    Unit(uid="U17.1.dispatch_two_run", prop="C17", harness="harness/c06_dispatch.c", entry="h_dispatch", mode="plain",
         functions=["setup_common_rtcd_internal"], pre_cmds=[GEN], keep_bodies=["setup_common_rtcd_internal"],
         remove_bodies=["get_cpu_flags"], replace_calls={"get_cpu_flags_to_use": "stub_cpu_flags_to_use"},
         min_obligations=500, canaries=2, cover_functions=[], timeout=900, mem_gb=16, unwind=64, checks=["--pointer-check", "--bounds-check"],
         what="the process-global dispatch table written by the initialiser is a function of its argument (and the CPU) "
              "only: a second call with equal flags leaves all ~490 pointers identical, so instances with equal CPU flags "
              "cannot change each other's dispatch (two-run)"),
    Unit(uid="U17.3.two_decoders", prop="C17", harness="harness/c15_teardown.c", entry="h_two_decoders", mode="plain",
         functions=["svt_av1_dec_deinit", "svt_av1_dec_deinit_handle", "init_svt_av1_decoder_handle", "EB_MALLOC_DEC"],
         keep_bodies=["svt_av1_dec_deinit", "svt_av1_dec_deinit_handle", "init_svt_av1_decoder_handle"],
         cbmc_flags=["--memory-leak-check"], unwind=6, min_obligations=30, cover_functions=[], timeout=600, trusted=TR,
         kind="bounded", bound="two decoder handles, one allocation each",
         what="two decoder instances: tearing down one does not free, and does not leave dangling, the other's allocations"),
]
from units.c14 import RC as RC14, TRUST as TRUST14
GENST = ("python3 {verif}/engine/gen_statics.py {repo}/Source/Lib/Encoder/Globals/EbEncHandle.c {udir}/statics_EbEncHandle.h "
         "-D__linux__ -DARCH_X86_64=1")
for _uid, _entry, _def, _fns in [
    ("U17.2.frame_set_parameter", "h_set_parameter", "U14_SET_PARAMETER", ["svt_av1_enc_set_parameter"]),
    ("U17.2.frame_stream_header", "h_stream_header", "U14_STREAM_HEADER", ["svt_av1_enc_stream_header", "svt_av1_enc_stream_header_release"]),
    ("U17.2.frame_send_picture", "h_send_picture", "U14_SEND_PICTURE", ["svt_av1_enc_send_picture"]),
    ("U17.2.frame_get_packet", "h_get_packet", "U14_GET_PACKET", ["svt_av1_enc_get_packet", "svt_av1_enc_release_out_buffer"]),
    ("U17.2.frame_get_recon", "h_get_recon", "U14_GET_RECON", ["svt_av1_get_recon"]),
]:
    UNITS.append(Unit(uid=_uid, prop="C17", harness="harness/c14_enc.c", entry=_entry, functions=_fns, mode="plain",
                      defines=[_def, "U17_FRAME"], pre_cmds=[GENST], replace_calls=RC14, keep_bodies=_fns, canaries=1,
                      min_obligations=20, unwind=140, cover_functions=[], trusted=TRUST14, timeout=600,
                      remove_bodies=["svt_enc_handle_dctor"],
                      what="frame of the per-instance entry point: its own body writes NO file-scope object of EbEncHandle.c "
                           "(process-count port tables, processor-group state; list generated from the file on every run), "
                           "so a call on one instance cannot change what another instance reads from them",
                      assumptions=["the frame is that of the entry point's own body: callees are the stubs of the C14 units"]))
META = {"C17": {
    "level": "proof",
    "explanation": "Sequential non-interference only: initialisers of process-global tables are functions of their "
                   "arguments (two-run), the per-instance API-path functions under contract for other properties have "
                   "frames without static-lifetime objects (dfcc assigns checks of C22/C23 units), and a two-instance "
                   "decoder teardown unit (known finding: shared allocation list). Data races are outside sequential "
                   "contracts.",
    "not_covered": ["interleavings / races between instances", "block-geometry tables and dispatch pointers rebuilt from "
                    "a second instance's SB size / CPU flags (F8: argument-dependent globals, observed by reading, no unit)",
                    "prediction_structure_group_ctor's copy-then-trim of the shared default tables (seed C17-m1): tried as a "
                    "frame unit three ways (byte snapshot, dfcc assigns clause, typed pool allocator) - the constructor's "
                    "untyped calloc'd tables + memcpy did not finish in 15 min / 16 GB for even one preset; dropped"],
}}

from engine.core import Unit

H = "harness/c16_ctor.c"
TR = ["OS objects (mutex, semaphore, thread) modelled as heap cells whose creation may fail (stubs/os_objects.h)",
      "CBMC's malloc/calloc/free models with --malloc-may-fail --malloc-fail-null and --memory-leak-check"]
LEAK = ["--memory-leak-check"]
ALL_DCTORS = ["svt_fifo_dctor", "svt_circular_buffer_dctor", "svt_muxing_queue_dctor", "svt_object_wrapper_dctor",
              "svt_system_resource_dctor", "obj_dctor"]
# destructors are called through pobj->dctor: the verifier case-splits over every address-taken function of that
# type; the bodies that this unit's constructor can never install are removed (a call that reached one of them
# would do nothing and show up as a leak)
# muxing queue: real callee constructors; system resource: the muxing-queue constructor (proved by its own unit) is
# replaced by its resource-accounting contract stub (with the real one inlined the solver does not finish in 15 min)
STUBS = {"U16.muxing_queue": {},
         "U16.system_resource": {"svt_muxing_queue_ctor": "stub_mq_ctor",
                                 "svt_muxing_queue_object_push_back": "stub_mq_push_back"}}
# every `pobj->dctor(pobj)` call site is restricted to the destructor the object's own constructor installs;
# goto-instrument turns each restriction into an ASSERTION (checked), so this prunes the recursion through
# function pointers without assuming anything
CB, FF, MQ = ["svt_circular_buffer_dctor"], ["svt_fifo_dctor"], ["svt_muxing_queue_dctor"]
RESTRICT = {
    "U16.muxing_queue": {"h_mq.function_pointer_call.1": MQ, "new_mq.function_pointer_call.1": MQ,
                         "svt_muxing_queue_ctor.function_pointer_call.1": CB,
                         "svt_muxing_queue_ctor.function_pointer_call.2": CB,
                         "svt_muxing_queue_ctor.function_pointer_call.3": FF,
                         "svt_muxing_queue_dctor.function_pointer_call.1": FF,
                         "svt_muxing_queue_dctor.function_pointer_call.2": CB,
                         "svt_muxing_queue_dctor.function_pointer_call.3": CB},
    "U16.system_resource": {"h_res.function_pointer_call.1": ["svt_system_resource_dctor"],
                            "new_res.function_pointer_call.1": ["svt_system_resource_dctor"],
                            "svt_system_resource_ctor.function_pointer_call.1": ["svt_object_wrapper_dctor"],
                            "svt_system_resource_ctor.function_pointer_call.2": ["stub_mq_dctor"],
                            "svt_system_resource_ctor.function_pointer_call.3": ["stub_mq_dctor"],
                            "svt_system_resource_dctor.function_pointer_call.1": ["stub_mq_dctor"],
                            "svt_system_resource_dctor.function_pointer_call.2": ["stub_mq_dctor"],
                            "svt_system_resource_dctor.function_pointer_call.3": ["svt_object_wrapper_dctor"],
                            "svt_object_wrapper_dctor.function_pointer_call.2": ["obj_dctor"],
                            "obj_creator.function_pointer_call.1": ["obj_dctor"]},
}
KEEP_DCTORS = {"U16.fifo": ["svt_fifo_dctor"], "U16.circular_buffer": ["svt_circular_buffer_dctor"],
               "U16.muxing_queue": ["svt_fifo_dctor", "svt_circular_buffer_dctor", "svt_muxing_queue_dctor"],
               "U16.system_resource": ["svt_object_wrapper_dctor", "svt_system_resource_dctor", "obj_dctor"]}
UNITS = []
THOROUGH = set()
CALLOC_MODEL = {"U16.muxing_queue", "U16.system_resource"}
for uid, entry, defs, fns, unwind, bound, kind in [
    ("U16.fifo", "h_fifo", ["U16_SRM", "MQ_MAXP=2", "RES_MAXN=1"], ["svt_fifo_ctor", "svt_fifo_dctor"], 3, "", "proved"),
    ("U16.circular_buffer", "h_cb", ["U16_SRM", "MQ_MAXP=2", "RES_MAXN=1"],
     ["svt_circular_buffer_ctor", "svt_circular_buffer_dctor"], 3, "", "proved"),
    ("U16.muxing_queue", "h_mq", ["U16_SRM", "MQ_MAXP=2", "RES_MAXN=1"],
     ["svt_muxing_queue_ctor", "svt_muxing_queue_dctor", "svt_fifo_ctor", "svt_circular_buffer_ctor"], 4,
     "object count <= 2, process count <= 2 (the loop allocates one FIFO per process)", "bounded"),
    ("U16.system_resource", "h_res", ["U16_SRM", "MQ_MAXP=2", "RES_MAXN=2"],
     ["svt_system_resource_ctor", "svt_system_resource_dctor", "svt_object_wrapper_ctor", "svt_object_wrapper_dctor",
      "svt_muxing_queue_ctor"], 4, "objects <= 2, producers 1, consumers <= 1", "bounded"),
    ("U16.segments", "h_seg", ["U16_SEG"], ["enc_dec_segments_ctor", "enc_dec_segments_dctor"], 5,
     "segment grid <= 3 columns x 3 rows (one mutex per row)", "bounded"),
    ("U16.thread_array", "h_threads", ["U16_THREADS"], ["EB_CREATE_THREAD_ARRAY", "EB_DESTROY_THREAD_ARRAY"], 5,
     "<= 3 threads per stage", "bounded"),
]:
    UNITS.append(Unit(uid=uid, prop="C16", harness=H, entry=entry, functions=fns, mode="plain", defines=defs + (["U16_CALLOC_MODEL"] if uid in CALLOC_MODEL else []),
                      malloc_may_fail=True, cbmc_flags=LEAK, unwind=unwind, canaries=2, min_obligations=20,
                      cover_functions=[], kind=kind, mem_gb=20, tier=("thorough" if uid in THOROUGH else "quick"),
                      unwindset=(["svt_muxing_queue_dctor:1", "svt_system_resource_dctor:1", "svt_object_wrapper_dctor:1"] if uid in CALLOC_MODEL else []), replace_calls=STUBS.get(uid, {}), restrict_fp=RESTRICT.get(uid), 
                      remove_bodies=[d for d in ALL_DCTORS if uid in KEEP_DCTORS and d not in KEEP_DCTORS[uid]], bound=bound, trusted=TR, timeout=600,
                      what="every subset of this constructor's allocations / OS-object creations may fail: error code "
                           "returned, nothing leaked, nothing freed twice, nothing NULL dereferenced; on success the "
                           "object invariant holds and EB_DELETE releases everything"))
from units.c15 import CRE as CRE15
UNITS.append(Unit(
    uid="U16.pool_creators", prop="C16", harness="harness/c15_creators.c", entry="h_creators", mode="plain",
    functions=CRE15, keep_bodies=CRE15 + ["svt_picture_buffer_desc_ctor", "stub_pbd_dctor", "posix_memalign"], malloc_may_fail=True,
    cbmc_flags=LEAK, unwind=4, canaries=2, min_obligations=60, cover_functions=[], timeout=600, mem_gb=16,
    trusted=TR + ["svt_picture_buffer_desc_ctor replaced by its resource-accounting contract stub", "posix_memalign = failing malloc"],
    what="creators of the encoder's buffer-pool elements (input / output / recon headers): every subset of their "
         "allocations may fail: error code returned, the partial object stays reachable from the pool element and its "
         "release frees everything exactly once (same harness as U15.4)"))
META = {"C16": {
    "level": "proof",
    "explanation": "Per-constructor failure closure under the verifier's failing-allocation mode (every subset of "
                   "allocations fails, not only 'the k-th'), with leak check, for the SRM constructor family, the "
                   "EncDec segments and the thread-array macros. Constructors whose loops allocate are bounded in "
                   "their element counts and reported as bounded units.",
    "not_covered": ["svt_av1_enc_init as a whole (>150 resources)", "svt_av1_enc_init_handle's own error path",
                    "decoder EB_MALLOC_DEC allocators"],
}}

from engine.core import Unit

H = "harness/c14_enc.c"
SRM = {"svt_get_full_object": "stub_get_full_object",
       "svt_get_full_object_non_blocking": "stub_get_full_object_non_blocking",
       "svt_get_empty_object": "stub_get_empty_object", "svt_post_full_object": "stub_post_full_object",
       "svt_release_object": "stub_release_object", "svt_shutdown_process": "stub_shutdown_process"}
CFG = {"verify_settings": "stub_verify_settings", "copy_api_from_app": "stub_copy_api_from_app",
       "set_default_configuration_parameters": "stub_void_scs", "set_param_based_on_input": "stub_void_scs",
       "print_lib_params": "stub_void_scs",
       "load_default_buffer_configuration_settings": "stub_load_default_buffer_configuration_settings",
       "copy_input_buffer": "copy_input_buffer_stub", "encode_sps_av1": "stub_encode_sps_av1",
       "output_bitstream_reset": "stub_output_bitstream_reset"}
RC = dict(SRM)
RC.update(CFG)
TRUST = ["stubs for SRM operations (contracts proved under C23), for the configuration chain (C12 units) and for "
         "copy_input_buffer / encode_sps_av1 (C21 / C02 units): each asserts its arguments are non-NULL",
         "ghost model of EbThreads.c (stubs/ghost_threads.h)"]
UNITS = []
COVER = {"U14.e.set_parameter": (["svt_av1_enc_set_parameter"], [r"EB_NO_THROW_NEW|prediction_structure_group_ptr"]),
         "U14.e.stream_header": (["svt_av1_enc_stream_header"], [r"InsufficientResources|free\(output_stream_buffer\)|^\}$"]),
         "U14.e.get_packet": (["svt_av1_enc_get_packet"], []),
         "U14.e.misc": (["svt_av1_enc_get_stream_info", "svt_av1_enc_deinit"], [r"^return EB_ErrorBadParameter;$"])}
for uid, entry, define, fns, what, can in [
    ("U14.e.set_parameter", "h_set_parameter", "U14_SET_PARAMETER", ["svt_av1_enc_set_parameter"],
     "NULL handle or NULL configuration => error code, no dereference; the configuration mutex is released on EVERY "
     "return path, so reject-then-retry does not self-deadlock", 2),
    ("U14.e.stream_header", "h_stream_header", "U14_STREAM_HEADER",
     ["svt_av1_enc_stream_header", "svt_av1_enc_stream_header_release"],
     "NULL handle or NULL output pointer => error code; success returns a buffer that release accepts", 1),
    ("U14.e.send_picture", "h_send_picture", "U14_SEND_PICTURE", ["svt_av1_enc_send_picture"],
     "NULL handle => error code; otherwise one empty buffer taken and posted exactly once", 1),
    ("U14.e.get_packet", "h_get_packet", "U14_GET_PACKET", ["svt_av1_enc_get_packet", "svt_av1_enc_release_out_buffer"],
     "NULL handle / NULL out pointer => error code; pic_send_done==0 never takes the blocking get; "
     "release_out_buffer tolerates NULL and pointer-to-NULL", 2),
    ("U14.e.get_recon", "h_get_recon", "U14_GET_RECON", ["svt_av1_get_recon"],
     "NULL handle / NULL buffer => error code; never blocks", 1),
    ("U14.e.misc", "h_misc", "U14_MISC",
     ["svt_av1_enc_get_stream_info", "svt_av1_enc_eos_nal", "svt_av1_enc_deinit", "svt_av1_enc_deinit_handle",
      "svt_av1_enc_init", "svt_av1_enc_init_handle"],
     "NULL arguments => error codes; deinit shuts down all 16 resources", 1),
]:
    UNITS.append(Unit(uid=uid, prop="C14", harness=H, entry=entry, functions=fns, mode="plain", defines=[define],
                      replace_calls=RC, keep_bodies=fns, canaries=can, min_obligations=20, unwind=3,
                      cover_functions=COVER.get(uid, (fns, []))[0], cover_allow=COVER.get(uid, (fns, []))[1], trusted=TRUST, what=what, timeout=600,
                      remove_bodies=["svt_enc_handle_dctor"]))

DECFN = ["svt_av1_dec_init_handle", "svt_av1_dec_set_parameter", "svt_av1_dec_init", "svt_av1_dec_frame",
         "svt_av1_dec_get_picture", "svt_av1_dec_deinit", "svt_av1_dec_deinit_handle"]
DKEEP = DECFN + ["svt_dec_out_buf", "svt_svt_dec_set_default_parameter", "init_svt_av1_decoder_handle", "svt_dec_handle_ctor",
                 "svt_dec_component_de_init", "decode_multiple_obu", "dec_pic_mgr_update_ref_pic", "dec_mem_init", "mk_dec"]
UNITS.append(Unit(
    uid="U14.d.null_args", prop="C14", harness="harness/c14_dec.c", entry="h_dec_null_args", mode="plain", defines=["U14D_NULL"],
    functions=DECFN, keep_bodies=DKEEP, unwind=4, canaries=1, min_obligations=30, cover_functions=[], timeout=600, mem_gb=16,
    what="every decoder entry point with each pointer argument NULL in turn (handle, configuration, data, output "
         "buffer) returns an error code and dereferences nothing invalid; dec_frame(NULL data) does not enter the parser",
    trusted=["decode_multiple_obu / dec_pic_mgr_update_ref_pic / dec_mem_init are stubs asserting non-NULL arguments (the parser is C10's)",
             "OS objects modelled as heap cells"]))
UNITS.append(Unit(
    uid="U14.d.get_picture", prop="C14", harness="harness/c14_dec.c", entry="h_dec_get_picture_early", mode="plain", defines=["U14D_GETPIC"],
    functions=["svt_av1_dec_get_picture", "svt_dec_out_buf"], keep_bodies=DKEEP, unwind=4, canaries=1, min_obligations=30,
    cover_functions=[], timeout=600, mem_gb=16,
    what="svt_av1_dec_get_picture on a handle as svt_av1_dec_init leaves it (no current picture, show_frame 0): returns "
         "EB_DecNoOutputPicture without dereferencing the missing picture buffer",
    trusted=["handle state after init written from svt_av1_dec_init / dec_mem_init (cur_pic_buf[0] = NULL, show_frame = 0)"]))
META = {"C14": {
    "level": "proof",
    "explanation": "One contract per public entry point: for every combination of NULL / valid pointer arguments no "
                   "pointer-dereference obligation fails and a NULL argument yields an error code; set_parameter "
                   "leaves the configuration mutex released on every path (ghost lock model), so a rejected "
                   "configuration leaves the handle usable; the non-blocking paths never call a blocking get.",
    "not_covered": ["arbitrary sequences of API calls beyond reject-then-retry (e.g. send_picture before init)",
                    "thread start-up inside svt_av1_enc_init"],
}}

from engine.core import Unit

H = "harness/c25_ec.c"
DECH = "Source/Lib/Decoder/Codec/EbDecBitstreamUnit.h"
UNITS = [
    Unit(uid="U25.1.cdf", prop="C25", harness=H, entry="h_cdf", mode="plain", defines=["U25_1"],
         functions=["update_cdf", "dec_update_cdf"], unwind=18, min_obligations=60, cover_functions=[],
         what="writer and reader adaptation are the same function on every 17-entry table, symbol and alphabet "
              "size 2..16; validity (incl. strict icdf[0]<32768) and counter saturation at 32 preserved",
         native=True, timeout=300),
    Unit(uid="U25.2.split", prop="C25", harness=H, entry="h_split", mode="dfcc", defines=["U25_2"],
         functions=["od_ec_decode_cdf_q15", "od_ec_dec_normalize", "svt_od_ec_encode_cdf_q15", "od_ec_encode_q15",
                    "od_ec_enc_normalize"],
         loop_contracts=1, unwind=18, min_obligations=100, cover_functions=[], timeout=1200, mem_gb=16, backend="cadical",
         slice_spec=[{"kind": "annot", "file": DECH, "func_re": r"^static int od_ec_decode_cdf_q15\(",
                      "loop": "do {", "name": "symbol_search", "text": "VERIF_LOOP_SYMBOL_SEARCH"}],
         assumptions=["reachability guard not applied to this unit: under --dfcc without an enforced contract the cover run "
                      "reports blocks of an unreachable duplicate of the function; liveness of the loop step was "
                      "shown instead by a mutation (`c < v` -> `c <= v` fails loop_invariant_step)"],
         what="for every range, window value, valid table and alphabet size: decode then encode of the decoded "
              "symbol agree on the new range and the code point lies in the encoder's sub-interval"),
    Unit(uid="U25.2.bool", prop="C25", harness=H, entry="h_bool", mode="plain", defines=["U25_2B"],
         functions=["od_ec_decode_bool_q15", "od_ec_dec_normalize", "svt_od_ec_encode_bool_q15",
                    "od_ec_enc_normalize"], min_obligations=60, cover_functions=[], timeout=900, backend="cadical",
         what="same agreement for booleans, every probability 0<f<32768"),
    Unit(uid="U25.3.norm", prop="C25", harness=H, entry="h_norm", mode="plain", defines=["U25_3", "NORM_MAXSTORAGE=4096"],
         functions=["od_ec_enc_normalize", "svt_od_ec_enc_tell"], unwind=17, native=True, min_obligations=60, cover_functions=[],
         timeout=900,
         what="encoder renormalisation conserves the coded value exactly (no bit lost or duplicated across the one- "
              "and two-chunk flush), keeps cnt in [-9,-1], re-establishes low+rng <= 2^(cnt+25), and the bit count "
              "(tell) advances by exactly the bits consumed"),
    Unit(uid="U25.3.grow", prop="C25", harness=H, entry="h_norm_grow", mode="plain", defines=["U25_3R"],
         functions=["od_ec_enc_normalize"], min_obligations=40, cover_functions=[], malloc_may_fail=True,
         kind="bounded", bound="pre-carry buffer of at most 4 entries before growth; allocation may fail",
         what="growth path of the pre-carry buffer: writes in bounds after realloc, failure reported"),
    Unit(uid="U25.4.roundtrip_bool", prop="C25", harness=H, entry="h_roundtrip", mode="plain", defines=["U25_RT", "RT_K=2"],
         functions=["svt_od_ec_enc_init", "svt_od_ec_encode_bool_q15", "od_ec_enc_normalize", "svt_od_ec_enc_done",
                    "od_ec_dec_init", "od_ec_dec_refill", "od_ec_decode_bool_q15"],
         unwind=20, min_obligations=100, cover_functions=[], timeout=900, mem_gb=16, backend="cadical", native=False,
         kind="bounded", bound="sequences of 2 booleans, every probability 0 < f < 32768 each",
         what="END-TO-END on the real writer and reader: init, code 2 booleans, flush (final bits, carry propagation), "
              "reader init / refill / padding past the end, decode 2 booleans: each decoded value equals the coded one",
         assumptions=["buffer growth not exercised: realloc is replaced by an assertion that it is never reached with the "
                      "16-byte initial buffers (holds; growth is U25.3.grow)"]),
    Unit(uid="U25.4.done_carry", prop="C25", harness=H, entry="h_done", mode="plain", defines=["U25_RT", "DONE_N=5"],
         functions=["svt_od_ec_enc_done"], unwind=20, min_obligations=100, cover_functions=[], timeout=900, mem_gb=16,
         backend="cadical", native=False, kind="bounded", bound="pre-carry buffer of 0..5 stored entries (+ up to 3 final ones)",
         what="svt_od_ec_enc_done from ANY pre-carry buffer content (each entry < 512: byte + pending carry) and any low / "
              "cnt in the writer's invariant: the returned bytes, read as one big-endian number, equal the position-weighted "
              "sum of the pre-carry entries modulo 256^nbytes - carry propagation through 0xFF bytes included",
         assumptions=["buffer growth not exercised (asserted unreachable)", "pre-carry entries < 512 (what the renormalisation stores)"]),
    Unit(uid="U25.4.roundtrip_cdf", prop="C25", harness=H, entry="h_roundtrip_cdf", mode="plain", defines=["U25_RT", "RT_K=1", "RT_N=16"],
         functions=["svt_od_ec_encode_cdf_q15", "svt_od_ec_encode_bool_q15", "od_ec_enc_normalize", "svt_od_ec_enc_done",
                    "od_ec_dec_init", "od_ec_dec_refill", "od_ec_decode_cdf_q15", "od_ec_decode_bool_q15"],
         unwind=20, min_obligations=100, cover_functions=[], timeout=900, mem_gb=16, backend="cadical", native=False,
         kind="bounded", bound="one symbol from an arbitrary valid table of 2..16 symbols followed by one boolean",
         what="END-TO-END: a symbol (any alphabet 2..16, any valid inverse CDF) then a boolean through the real writer, "
              "flush, real reader: both come back",
         assumptions=["buffer growth not exercised (asserted unreachable)"]),
]

META = {"C25": {
    "level": "proof",
    "explanation": "Per-step lemmas over the real encoder and decoder for all inputs: identical adaptation, range-split "
                   "agreement for symbols (alphabets 2..16) and booleans, exact value conservation and bit accounting "
                   "of the encoder's renormalisation; plus END-TO-END round trips of short sequences (2 booleans; symbol + "
                   "boolean) through init, flush with carry propagation, reader init / refill.",
    "not_covered": ["simulation between encoder (low, pre-carry bytes) and decoder (dif, bytes read) over unbounded "
                    "sequences", "the aom_write_symbol / svt_read_symbol wrappers' buffer management"],
}}

from engine.core import Unit

GEN = ("python3 {verif}/engine/gen_rtcd.py {repo}/Source/Lib/Common/Codec/common_dsp_rtcd.h {udir}/c06_rtcd_list.h RTCD "
       "$(python3 -c \"import sys; sys.path.insert(0,'{verif}'); from engine import core; "
       "print(' '.join(f for f in core.repo_flags() if f.startswith('-I') or f.startswith('-D')))\")")
UNITS = [
    Unit(uid="U06.1.common_dispatch", prop="C06", harness="harness/c06_dispatch.c", entry="h_dispatch", mode="plain",
         functions=["setup_common_rtcd_internal"], pre_cmds=[GEN], keep_bodies=["setup_common_rtcd_internal"], remove_bodies=["get_cpu_flags"], replace_calls={"get_cpu_flags_to_use": "stub_cpu_flags_to_use"},
         min_obligations=500, canaries=2, cover_functions=[], timeout=900, mem_gb=16, unwind=64,
         checks=["--pointer-check", "--bounds-check"],
         what="for every CPU flag word: every one of the ~500 common dispatch pointers (list generated from the header) is "
              "non-NULL after setup, and the table is a function of the flags only (two-run)"),
]
META = {"C06": {
    "level": "proof",
    "explanation": "Dispatch soundness only: totality and determinism of the common dispatch table for all flag words, and "
                   "(in the C05 unit) instruction-set flags used == requested & usable. Bit-exactness of the kernels the "
                   "table selects is C07 and is not claimed here.",
    "not_covered": ["that the selected variant's instruction-set bit is set in flags (needs the name-based variant table)",
                    "the encoder-side table (aom_dsp_rtcd)", "kernel equivalence (C07)"],
}}

from engine.core import Unit

H = "harness/c20_tools.c"
UNITS = [
    Unit(uid="U20.2.multi_process_signals", prop="C20", harness=H, entry="h_multi", mode="plain", defines=["U20_MULTI"],
         functions=["signal_derivation_multi_processes_oq"], keep_bodies=["signal_derivation_multi_processes_oq"],
         min_obligations=100, cover_functions=[], timeout=600, mem_gb=16, unwind=4,
         what="for every preset and every state of the 27 KB + 200 KB control sets: loop filter / palette / intra block "
              "copy / CDEF / self-guided / Wiener switched off => the picture-level control signal is 0"),
    Unit(uid="U20.5.tile_info", prop="C20", harness=H, entry="h_tile", mode="plain", defines=["U20_TILE"],
         functions=["set_tile_info"], keep_bodies=["set_tile_info"], min_obligations=10, cover_functions=[], timeout=600,
         mem_gb=16, unwind=4,
         replace_calls={"svt_av1_get_tile_limits": "stub_tile_limits", "svt_av1_calculate_tile_cols": "stub_calc",
                        "svt_av1_calculate_tile_rows": "stub_calc"},
         what="signalled tile layout = requested log2 columns / rows clamped by the frame's own column / row limits "
              "(limits function havoced: any limits)"),
]
META = {"C20": {
    "level": "proof",
    "explanation": "Switch => derived picture-level control signal for the tools decided in "
                   "signal_derivation_multi_processes_oq, and the tile layout computation. Only the frame-level half of "
                   "the property.",
    "not_covered": ["per-block usage inside mode decision (e.g. chroma-from-luma candidates: seed C20-m2 is missed)",
                    "the other signal-derivation functions (mode decision configuration, ME, EncDec) and the header writers"],
}}

from engine.core import Unit

H = "harness/c21_input.c"
UNITS = [
    Unit(uid="U21.2.pad", prop="C21", harness=H, entry="h_pad", mode="plain", defines=["U21_PAD"],
         functions=["pad_input_picture"], keep_bodies=["pad_input_picture"], unwind=8, min_obligations=30, backend="cadical",
         cover_functions=["pad_input_picture"], cover_allow=[r"SVT_ERROR|^return;$|svt_memcpy\("], timeout=400, mem_gb=16,
         kind="bounded", bound="plane of at most 4x4 visible samples, padding <= 2, stride slack <= 3, all content symbolic",
         what="edge replication: every sample of the padded plane equals the nearest visible sample, so the padded "
              "picture depends on the visible samples only (arbitrary prior bytes in the padding)",
         trusted=["byte-loop models of memset / svt_memcpy (dispatch pointer bound to the model)"]),
    Unit(uid="U21.1.copy10", prop="C21", harness=H, entry="h_copy10", mode="plain", defines=["U21_COPY10"],
         functions=["copy_frame_buffer [10-bit packed path]"], keep_bodies=["copy_frame_buffer"], unwind=3,
         checks=["--signed-overflow-check", "--div-by-zero-check", "--undefined-shift-check"],
         min_obligations=30, cover_functions=[], timeout=600,
         what="10-bit packed input: each plane is unpacked from its own source pointer with its own stride into its "
              "own destination for exactly the visible width/height (call-argument contract, un_pack2d logged)",
         assumptions=["un_pack2d itself (16-bit -> 8+2 bit) is a logging stub here; the plane buffers are not modelled (pointer checks off): this is a call-argument contract"]),
]
META = {"C21": {
    "level": "other",
    "explanation": "bounded: the padding function is proved (for planes up to 4x4, all content symbolic) to make the "
                   "padded picture a function of the visible samples only (edge replication spec with a witness "
                   "sample); the 10-bit input copy is proved (all sizes) to read each plane through its own pointer "
                   "and stride for the visible size only.",
    "not_covered": ["8-bit and compressed 10-bit copy paths as two-run contracts", "deep copy of metadata "
                    "(caller may free after send)", "the composition copy -> pad -> downstream"],
}}

from engine.core import Unit

FILES = {1: "EbPictureDecisionProcess.c", 2: "EbAdaptiveMotionVectorPrediction.c",
         3: "EbModeDecisionConfigurationProcess.c", 4: "EbDecUtils.h (via EbDecParseObu.c)",
         5: "EbInterPrediction.c"}
UNITS = []
for tu, f in FILES.items():
    fn = "get_relative_dist_enc" if tu == 5 else "get_relative_dist"
    UNITS.append(Unit(
        uid="U22.1.%d" % tu, prop="C22", harness="harness/c22_reldist.c", entry="h_reldist",
        functions=["%s [%s]" % (fn, f)], mode="dfcc", enforce=fn, defines=["TU=%d" % tu],
        min_obligations=8, native=True,
        what="signed distance modulo 2^bits in [-2^(bits-1), 2^(bits-1)), 0 when order hints are off, "
             "no side effect; all 1<=bits<=8, all a,b in [0,2^bits)"))

for _h in (0, 1000, 2041, 2044, 2045, 2046, 2047):
    UNITS.append(Unit(
        uid="U22.2.count_tu.h%d" % _h, prop="C22", harness="harness/c02_tu.c", entry="h_count", mode="plain",
        functions=["count_frames_in_next_tu", "get_reorder_queue_entry", "get_reorder_queue_pos"],
        keep_bodies=["count_frames_in_next_tu"], defines=["TU_N=8", "HEAD_CONST=%d" % _h],
        thorough_defines=["TU_N=12", "HEAD_CONST=%d" % _h], canaries=3, min_obligations=40, timeout=600, mem_gb=16,
        unwind=14, backend="cadical", cover_functions=["count_frames_in_next_tu"],
        cover_allow=[r"^return i;$|while \(i <"], kind="bounded",
        bound="temporal unit of at most 8 frames quick / 12 thorough; queue head %d of 2048 (heads 0, 1000, 2041, "
              "2044..2047 each have a unit, so the wrap falls at every position inside the unit)" % _h,
        what="reorder-queue index arithmetic across the physical end of the 2048-slot queue: the scan for the frame that closes a temporal unit wraps around (same harness as U02.5)"))

META = {"C22": {
    "level": "proof",
    "explanation": "Each order-hint distance helper is proved, for every order_hint_bits in 1..8 and every pair of "
                   "hints, to return the unique representative of (a-b) mod 2^bits in [-2^(bits-1), 2^(bits-1)); "
                   "the reorder-queue index arithmetic of packetization is proved to stay in [0,2048) and to advance "
                   "by exactly the released count.",
    "not_covered": ["wrap-around arithmetic written inline in picture_decision_kernel, initial_rate_control_kernel, "
                    "picture_manager_kernel", "end-to-end decodability of long streams (whole-history)"],
}}

from engine.core import Unit

FILES = {1: "EbPictureDecisionProcess.c", 2: "EbAdaptiveMotionVectorPrediction.c",
         3: "EbModeDecisionConfigurationProcess.c", 4: "EbDecUtils.h (via EbDecParseObu.c)",
         5: "EbInterPrediction.c"}
UNITS = []
for tu, f in FILES.items():
    fn = "get_relative_dist_enc" if tu == 5 else "get_relative_dist"
    UNITS.append(Unit(
        uid="U22.1.%d" % tu, prop="C22", harness="harness/c22_reldist.c", entry="h_reldist",
        functions=["%s [%s]" % (fn, f)], mode="dfcc", enforce=fn, defines=["TU=%d" % tu],
        min_obligations=8, native=True,
        what="signed distance modulo 2^bits in [-2^(bits-1), 2^(bits-1)), 0 when order hints are off, "
             "no side effect; all 1<=bits<=8, all a,b in [0,2^bits)"))

META = {"C22": {
    "level": "proof",
    "explanation": "Each order-hint distance helper is proved, for every order_hint_bits in 1..8 and every pair of "
                   "hints, to return the unique representative of (a-b) mod 2^bits in [-2^(bits-1), 2^(bits-1)); "
                   "the reorder-queue index arithmetic of packetization is proved to stay in [0,2048) and to advance "
                   "by exactly the released count.",
    "not_covered": ["wrap-around arithmetic written inline in picture_decision_kernel, initial_rate_control_kernel, "
                    "picture_manager_kernel", "end-to-end decodability of long streams (whole-history)"],
}}

/* Failing input for the C10 known findings KF-C10-prefetch / KF-C10-truncated: a 2-byte input (a temporal delimiter
 * OBU, 0x12 0x00) in a heap block of exactly 2 bytes is passed to svt_av1_dec_frame; the bit reader reads two 32-bit
 * words from it.  Run under valgrind: "Invalid read of size 4 ... 0 bytes after a block of size 2 alloc'd".
 *   gcc demo_c10.c -I<tree>/Source/API -L<libdir> -lSvtAv1Dec -o demo && LD_LIBRARY_PATH=<libdir> valgrind ./demo <case>
 * case 1: {0x12,0x00} (complete TD)   case 2: {0x0A} (sequence header OBU truncated after its header byte) */
#include <stdio.h>
#include <stdlib.h>
#include <string.h>
#include "EbSvtAv1Dec.h"
int main(int argc, char **argv) {
    int k = argc > 1 ? atoi(argv[1]) : 1;
    EbComponentType *h = NULL; EbSvtAv1DecConfiguration cfg;
    if (svt_av1_dec_init_handle(&h, NULL, &cfg)) return 9;
    cfg.threads = 1;
    if (svt_av1_dec_set_parameter(h, &cfg) || svt_av1_dec_init(h)) return 9;
    size_t n = k == 1 ? 2 : 1;
    uint8_t *in = malloc(n);
    if (k == 1) { in[0] = 0x12; in[1] = 0x00; } else in[0] = 0x0A;
    EbErrorType e = svt_av1_dec_frame(h, in, n, 0);
    printf("svt_av1_dec_frame returned %x\n", e);
    free(in);
    return 0;
}

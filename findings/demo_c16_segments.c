/* Failing fault for the C16 defect repaired by "fix: enc_dec_segments_dctor ...": the FIRST array allocation of
 * enc_dec_segments_ctor fails -> EB_NEW runs the destructor -> it indexes row_array (NULL).
 * gcc -fsanitize=address -DSEG_FILE='"<tree>/Source/Lib/Encoder/Codec/EbEncDecSegments.c"' -I<tree>/Source/Lib/Common/Codec
 *     -I<tree>/Source/Lib/Encoder/Codec -I<tree>/Source/API -I<gen> demo_c16_segments.c -lpthread ; exit 0 = error code returned */
#include <stdlib.h>
#include <stdio.h>
static int g_fail_at = 2, g_n; /* allocation #1 is the object itself (calloc), #2 the first array */
static void *my_malloc(size_t n) { if (++g_n == g_fail_at) return NULL; return (malloc)(n); }
static void *my_calloc(size_t a, size_t b) { if (++g_n == g_fail_at) return NULL; return (calloc)(a, b); }
#define malloc(n) my_malloc(n)
#define calloc(a, b) my_calloc(a, b)
#include SEG_FILE
void svt_print_alloc_fail(const char *f, int l) { (void)f; (void)l; }
void svt_add_mem_entry(void *p, EbPtrType t, size_t c, const char *f, uint32_t l) {}
void svt_remove_mem_entry(void *p, EbPtrType t) {}
EbHandle svt_create_mutex(void) { return (malloc)(1); }
EbErrorType svt_destroy_mutex(EbHandle h) { free(h); return EB_ErrorNone; }
static EbErrorType mk(EncDecSegments **s) { EB_NEW(*s, enc_dec_segments_ctor, 2, 2); return EB_ErrorNone; }
int main(void) { EncDecSegments *s = 0; EbErrorType e = mk(&s); printf("ctor returned %x\n", e); return e == EB_ErrorInsufficientResources ? 0 : 1; }

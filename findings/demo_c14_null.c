/* Failing inputs for the C14 defects repaired by the two "fix:" commits in /repo.
 * Build against a library built from the UNFIXED tree (60546bf) to see the crashes / the hang:
 *   gcc demo_c14_null.c -I/repo/Source/API -L<libdir> -lSvtAv1Enc -lpthread -o demo && LD_LIBRARY_PATH=<libdir> ./demo <case>
 * case 1: get_packet(NULL,&p,0)   2: get_recon(NULL,&b)   3: send_picture(NULL,NULL)   4: get_stream_info(NULL,1,&x)
 * case 5: set_parameter(h,NULL)   6: stream_header(h,NULL) 7: release_out_buffer(&null)
 * case 8: reject-then-retry: set_parameter(h, bad) then set_parameter(h, good) must return (watchdog 5 s) */
#include <stdio.h>
#include <stdlib.h>
#include <string.h>
#include <unistd.h>
#include <signal.h>
#include "EbSvtAv1Enc.h"
static void on_alarm(int s) { (void)s; printf("HANG: second svt_av1_enc_set_parameter did not return\n"); _exit(2); }
int main(int argc, char **argv) {
    int k = argc > 1 ? atoi(argv[1]) : 1;
    EbComponentType *h = NULL; EbSvtAv1EncConfiguration cfg; EbBufferHeaderType *p = NULL, b; SvtAv1FixedBuf fb;
    memset(&b, 0, sizeof(b));
    if (k >= 5) { if (svt_av1_enc_init_handle(&h, NULL, &cfg) != EB_ErrorNone) return 9; cfg.source_width = 64; cfg.source_height = 64; }
    EbErrorType e = EB_ErrorNone;
    switch (k) {
    case 1: e = svt_av1_enc_get_packet(NULL, &p, 0); break;
    case 2: e = svt_av1_get_recon(NULL, &b); break;
    case 3: e = svt_av1_enc_send_picture(NULL, NULL); break;
    case 4: e = svt_av1_enc_get_stream_info(NULL, SVT_AV1_STREAM_INFO_FIRST_PASS_STATS_OUT, &fb); break;
    case 5: e = svt_av1_enc_set_parameter(h, NULL); break;
    case 6: svt_av1_enc_set_parameter(h, &cfg); e = svt_av1_enc_stream_header(h, NULL); break;
    case 7: svt_av1_enc_release_out_buffer(&p); e = EB_ErrorBadParameter; break;
    case 8: { EbSvtAv1EncConfiguration bad = cfg; bad.enc_mode = 99; signal(SIGALRM, on_alarm); alarm(5);
              e = svt_av1_enc_set_parameter(h, &bad); printf("first: %x\n", e); e = svt_av1_enc_set_parameter(h, &cfg);
              printf("second: %x\n", e); return e == EB_ErrorNone ? 0 : 1; }
    }
    printf("returned %x\n", e);
    return e != EB_ErrorNone ? 0 : 1;
}

/* Failing input for the C13 defect (11 configuration fields left undefined by svt_av1_enc_init_handle):
 * two configuration objects with different prior memory (0x00 / 0xFF) come back different.
 * gcc demo_c13.c -I/repo/Source/API -L<libdir> -lSvtAv1Enc -o demo && LD_LIBRARY_PATH=<libdir> ./demo ; exit 1 = defect */
#include <stdio.h>
#include <string.h>
#include "EbSvtAv1Enc.h"
int main(void) {
    EbComponentType *h1 = NULL, *h2 = NULL; EbSvtAv1EncConfiguration a, b;
    memset(&a, 0x00, sizeof(a)); memset(&b, 0xFF, sizeof(b));
    if (svt_av1_enc_init_handle(&h1, NULL, &a) || svt_av1_enc_init_handle(&h2, NULL, &b)) return 9;
    int bad = 0;
#define CK(f) if (memcmp(&a.f, &b.f, sizeof(a.f))) { printf("field %s depends on the caller's prior memory\n", #f); bad = 1; }
    CK(render_width) CK(render_height) CK(is_16bit_pipeline) CK(rc_twopass_stats_in) CK(rc_firstpass_stats_out)
    CK(enable_qp_scaling_flag) CK(enable_denoise_flag) CK(in_loop_me_flag) CK(vbv_bufsize) CK(pred_struct)
    CK(manual_pred_struct_entry_num)
    return bad;
}

/* Failing history for known finding KF-C17-decmap: two decoder instances in one process.  The allocation list head
 * svt_dec_memory_map is ONE process global: creating handle B redirects it, so B's (and later A's) allocations are
 * chained on one list and svt_av1_dec_deinit(A) walks and frees B's memory.
 *   gcc demo_c17_dec.c -I<tree>/Source/API -L<libdir> -lSvtAv1Dec -o demo && LD_LIBRARY_PATH=<libdir> valgrind -q ./demo */
#include <stdio.h>
#include "EbSvtAv1Dec.h"
int main(void) {
    EbComponentType *a = NULL, *b = NULL; EbSvtAv1DecConfiguration ca, cb;
    if (svt_av1_dec_init_handle(&a, NULL, &ca) || svt_av1_dec_init_handle(&b, NULL, &cb)) return 9;
    ca.threads = cb.threads = 1;
    if (svt_av1_dec_set_parameter(a, &ca) || svt_av1_dec_set_parameter(b, &cb)) return 9;
    if (svt_av1_dec_init(a) || svt_av1_dec_init(b)) return 9;      /* both allocate through the shared list */
    svt_av1_dec_deinit(a); svt_av1_dec_deinit_handle(a);          /* frees B's allocations as well */
    svt_av1_dec_deinit(b); svt_av1_dec_deinit_handle(b);          /* double free / use after free */
    printf("both instances torn down\n");
    return 0;
}

/* Failing inputs for the C12 defects repaired by the "fix: verify_settings rejects ..." and "fix: default look-ahead
 * ..." commits.  Against a library built from the UNFIXED tree every case below prints ACCEPTED (cases 1-11) or
 * REJECTED (case 12) where the documentation says the opposite; exit 1 = defect present.
 *   gcc demo_c12.c -I<tree>/Source/API -L<libdir> -lSvtAv1Enc -o demo && LD_LIBRARY_PATH=<libdir> ./demo */
#include <stdio.h>
#include <string.h>
#include "EbSvtAv1Enc.h"
static int try_cfg(const char *what, void (*set)(EbSvtAv1EncConfiguration *), int expect_ok) {
    EbComponentType *h = NULL; EbSvtAv1EncConfiguration c;
    if (svt_av1_enc_init_handle(&h, NULL, &c)) return 9;
    c.source_width = 64; c.source_height = 64; set(&c);
    EbErrorType e = svt_av1_enc_set_parameter(h, &c);
    int ok = (e == EB_ErrorNone);
    printf("%-40s %s%s\n", what, ok ? "ACCEPTED" : "REJECTED", ok == expect_ok ? "" : "   <-- contradicts the documentation");
    svt_av1_enc_deinit_handle(h);
    return ok != expect_ok;
}
static void s1(EbSvtAv1EncConfiguration *c) { c->enc_mode = -1; }
static void s2(EbSvtAv1EncConfiguration *c) { c->unpin = 2; }
static void s3(EbSvtAv1EncConfiguration *c) { c->enable_tpl_la = 2; }
static void s4(EbSvtAv1EncConfiguration *c) { c->film_grain_denoise_strength = 51; }
static void s5(EbSvtAv1EncConfiguration *c) { c->tf_level = 4; }
static void s6(EbSvtAv1EncConfiguration *c) { c->enable_overlays = 2; }
static void s7(EbSvtAv1EncConfiguration *c) { c->recode_loop = 4; }
static void s8(EbSvtAv1EncConfiguration *c) { c->vbr_bias_pct = 101; }
static void s9(EbSvtAv1EncConfiguration *c) { c->under_shoot_pct = 101; }
static void s10(EbSvtAv1EncConfiguration *c) { c->over_shoot_pct = 1001; }
static void s11(EbSvtAv1EncConfiguration *c) { c->use_fixed_qindex_offsets = 1; c->key_frame_qindex_offset = 0x7fffffff; }
static void s12(EbSvtAv1EncConfiguration *c) { c->rate_control_mode = 1; c->frame_rate = 120 << 16; }
int main(void) {
    int bad = 0;
    bad |= try_cfg("enc_mode = -1", s1, 0); bad |= try_cfg("unpin = 2", s2, 0); bad |= try_cfg("enable_tpl_la = 2", s3, 0);
    bad |= try_cfg("film_grain_denoise_strength = 51", s4, 0); bad |= try_cfg("tf_level = 4", s5, 0);
    bad |= try_cfg("enable_overlays = 2", s6, 0); bad |= try_cfg("recode_loop = 4", s7, 0); bad |= try_cfg("vbr_bias_pct = 101", s8, 0);
    bad |= try_cfg("under_shoot_pct = 101", s9, 0); bad |= try_cfg("over_shoot_pct = 1001", s10, 0);
    bad |= try_cfg("key_frame_qindex_offset = INT_MAX", s11, 0);
    bad |= try_cfg("defaults + rc 1 at 120 fps", s12, 1);
    return bad ? 1 : 0;
}

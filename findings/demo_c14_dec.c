/* Failing inputs for the C14 decoder-side defects (repaired by a "fix:" commit in /repo).
 *   gcc demo_c14_dec.c -I/repo/Source/API -L<libdir> -lSvtAv1Dec -lpthread -o demo && LD_LIBRARY_PATH=<libdir> ./demo <case>
 * case 1: get_picture right after init (no frame decoded yet)   2: get_picture(h, NULL buffer)
 * case 3: dec_frame(h, NULL data, 16 bytes)
 * exit 0 = an error code was returned; a crash (SIGSEGV) is the defect. */
#include <stdio.h>
#include <stdlib.h>
#include <string.h>
#include "EbSvtAv1Dec.h"
int main(int argc, char **argv) {
    int k = argc > 1 ? atoi(argv[1]) : 1;
    EbComponentType *h = NULL; EbSvtAv1DecConfiguration cfg; EbBufferHeaderType buf; EbSvtIOFormat img; EbAV1StreamInfo si; EbAV1FrameInfo fi;
    memset(&buf, 0, sizeof(buf)); memset(&img, 0, sizeof(img)); buf.p_buffer = (uint8_t *)&img;
    if (svt_av1_dec_init_handle(&h, NULL, &cfg) != EB_ErrorNone) return 9;
    if (svt_av1_dec_set_parameter(h, &cfg) != EB_ErrorNone) return 9;
    if (svt_av1_dec_init(h) != EB_ErrorNone) return 9;
    EbErrorType e = EB_ErrorNone;
    switch (k) {
    case 1: e = svt_av1_dec_get_picture(h, &buf, &si, &fi); break;
    case 2: e = svt_av1_dec_get_picture(h, NULL, &si, &fi); break;
    case 3: e = svt_av1_dec_frame(h, NULL, 16, 0); break;
    }
    printf("returned %x\n", (unsigned)e);
    return e != EB_ErrorNone ? 0 : 1;
}

#!/bin/sh
# C24 finding (fixed by /repo 36c4686): a picture one superblock wide never completes EncDec with > 1 core.
# usage: demo_c24_w1.sh <dir holding SvtAv1EncApp and libSvtAv1Enc.so>   -> exit 0 completes, 1 hangs (timeout 60 s)
B=${1:-/repo/Bin/RelWithDebInfo}
T=$(mktemp -d)
head -c $((64*256*3/2*3)) /dev/zero > $T/in.yuv
LD_LIBRARY_PATH=$B timeout 60 $B/SvtAv1EncApp -i $T/in.yuv -w 64 -h 256 -n 3 --preset 8 -b $T/out.ivf >/dev/null 2>&1
rc=$?
rm -rf $T
if [ $rc -eq 124 ]; then echo "HANG: 64x256 encode did not complete in 60 s"; exit 1; fi
echo "completed (exit $rc)"; exit $rc

/* Failing history for the C15 defect repaired by "fix: svt_av1_dec_deinit ...": create a decoder handle and tear it
 * down at once (no svt_av1_dec_init, no frame).  The unfixed svt_av1_dec_deinit walks the allocation list with a
 * do/while that treats the (uninitialised) list head as an entry: free of garbage + double free.
 *   gcc demo_c15_dec.c -I<tree>/Source/API -L<libdir> -lSvtAv1Dec -o demo && LD_LIBRARY_PATH=<libdir> valgrind -q ./demo */
#include <stdio.h>
#include "EbSvtAv1Dec.h"
int main(void) {
    EbComponentType *h = NULL; EbSvtAv1DecConfiguration cfg;
    if (svt_av1_dec_init_handle(&h, NULL, &cfg)) return 9;
    EbErrorType a = svt_av1_dec_deinit(h), b = svt_av1_dec_deinit_handle(h);
    printf("deinit %x deinit_handle %x\n", a, b);
    return (a || b) ? 1 : 0;
}

/* C23 — contracts on the real functions of Source/Lib/Common/Codec/EbSystemResourceManager.c.
 * Attached by forward declaration (exact signatures) placed before the #include of the real file.
 *
 * Layering (modular: a caller sees only the callee's contract):
 *   L0  circular buffer / FIFO primitives    exact functional contracts (+ RI lemmas in c23_ri.c)
 *   L1  svt_muxing_queue_assignation          loop contract; L0 callees by their *abstract view* contracts
 *   L2  muxing push_back/push_front, release_process
 *   L3  public operations (post/release/get/inc/enable/disable/shutdown) with the ghost lock model
 */
#ifndef C23_H
#define C23_H
#include <stdlib.h>
#include "EbSystemResourceManager.h"
/* ------------------------------------------------------------------ ghost log of the abstract views */
/* abstract occupancy of the two buffers of the muxing queue under analysis (L1/L2 units) */
EbMuxingQueue *g_q;
unsigned g_avail_obj, g_avail_proc, g_pops_obj, g_pops_proc;
unsigned g_fifo_pushes;             /* svt_fifo_push_back calls */
/* object identities in the ghost log are integers (GID), not pointers: CBMC 6.11 cannot satisfy
 * `assume(ghost_ptr == p)` for a contract-havoced pointer-typed global and a fresh object inside a loop
 * step, which silently kills the path (found by the reachability guard) */
typedef __CPROVER_size_t vgid_t;
#define GID(p) ((vgid_t)(p))
vgid_t g_last_fifo;                  /* FIFO that received the last object (0 = none yet) */
vgid_t g_last_obj;
vgid_t g_last_sem, g_last_fmutex;    /* semaphore / mutex of g_last_fifo, recorded at push time */
int g_post_matches;                 /* every post was on the semaphore of the FIFO that just received an object */
/* L3 log: calls into the muxing layer */
unsigned g_mq_pushes;               /* svt_muxing_queue_object_push_back/front calls */
vgid_t g_mq_last_q;
vgid_t g_mq_last_obj;
int g_mq_last_front;
unsigned g_relproc_calls;           /* svt_release_process calls */
vgid_t g_relproc_last;
unsigned g_cb_pushes, g_assign_calls; int g_cb_last_front; int g_order_ok; int g_single_threaded;
vgid_t g_cb_last, g_cb_last_obj, g_assign_last;
unsigned g_fifo_pops;
unsigned g_shutdowns; vgid_t g_shutdown_last;

#ifdef C23_L1
/* every post must FOLLOW an as yet unposted push, be on the semaphore of the FIFO that received that object,
 * and happen after that FIFO's mutex has been released (only the queue mutex may still be held) */
#define GHOST_POST_HOOK(h) do { if (!(g_last_fifo && GID(h) == g_last_sem && \
      g_fifo_pushes == g_posts && !g_is_held((EbHandle)g_last_fmutex))) g_post_matches = 0; } while (0)
#endif
#ifdef C23_L3
extern unsigned g_relproc_calls; extern int g_order_ok;
#define GHOST_WAIT_HOOK(h) do { if (g_relproc_calls != 1) g_order_ok = 0; } while (0)
EbFifo *g_shut_fifo;
#ifdef C23_L3_GETEMPTY
__CPROVER_size_t g_first_at_lock, g_first_at_unlock;
#define GHOST_LOCK_HOOK(h) do { g_first_at_lock = (__CPROVER_size_t)g_shut_fifo->first_ptr; } while (0)
#define GHOST_UNLOCK_HOOK(h) do { g_first_at_unlock = (__CPROVER_size_t)g_shut_fifo->first_ptr; } while (0)
#endif
#ifdef C23_L3_SHUTDOWN
#define GHOST_POST_HOOK(h) do { if (!(g_shut_fifo->quit_signal == EB_TRUE && g_nheld == 0)) g_order_ok = 0; } while (0)
#endif
#endif
#include "ghost_threads.h"

#define CB_MAX 4096u
#define NEXT_IDX(i, n) (((i) == (n)-1) ? 0 : (i) + 1)
#define PREV_IDX(i, n) (((i) == 0) ? (n)-1 : (i)-1)

/* shape of a circular buffer object (memory only) */
#define CB_SHAPE(b)                                                                          \
    (__CPROVER_is_fresh(b, sizeof(*(b))) && (b)->buffer_total_count >= 1 &&                  \
     (b)->buffer_total_count <= CB_MAX &&                                                    \
     __CPROVER_is_fresh((b)->array_ptr, sizeof(EbPtr) * (b)->buffer_total_count) &&          \
     (b)->head_index < (b)->buffer_total_count && (b)->tail_index < (b)->buffer_total_count)

/* type invariant of a constructed FIFO (established by svt_fifo_ctor / svt_muxing_queue_ctor: its own mutex
 * and semaphore exist and are distinct from the queue's mutex) */
#define FIFO_TYPE_INV(f, q) \
    ((f)->lockout_mutex != NULL && (f)->counting_semaphore != NULL && (f)->lockout_mutex != (q)->lockout_mutex)
/* ------------------------------------------------------------------ ghost log of the abstract views */
#ifdef C23_L0
/* ------------------------------------------------------------------ L0 exact contracts */
static EbBool svt_circular_buffer_empty_check(EbCircularBuffer *bufferPtr)
__CPROVER_requires(CB_SHAPE(bufferPtr))
__CPROVER_assigns()
__CPROVER_ensures(__CPROVER_return_value ==
                  (((bufferPtr->head_index == bufferPtr->tail_index) &&
                    (bufferPtr->array_ptr[bufferPtr->head_index] == NULL)) ? EB_TRUE : EB_FALSE));

static EbErrorType svt_circular_buffer_pop_front(EbCircularBuffer *bufferPtr, EbPtr *object_ptr)
__CPROVER_requires(CB_SHAPE(bufferPtr) && __CPROVER_is_fresh(object_ptr, sizeof(*object_ptr)))
__CPROVER_assigns(*object_ptr, bufferPtr->array_ptr[bufferPtr->head_index], bufferPtr->head_index,
                  bufferPtr->current_count)
__CPROVER_ensures(*object_ptr == __CPROVER_old(bufferPtr->array_ptr[bufferPtr->head_index]))
__CPROVER_ensures(bufferPtr->array_ptr[__CPROVER_old(bufferPtr->head_index)] == NULL)
__CPROVER_ensures(bufferPtr->head_index ==
                  NEXT_IDX(__CPROVER_old(bufferPtr->head_index), bufferPtr->buffer_total_count))
__CPROVER_ensures(bufferPtr->current_count == __CPROVER_old(bufferPtr->current_count) - 1u)
__CPROVER_ensures(__CPROVER_return_value == EB_ErrorNone);

static EbErrorType svt_circular_buffer_push_back(EbCircularBuffer *bufferPtr, EbPtr object_ptr)
__CPROVER_requires(CB_SHAPE(bufferPtr))
__CPROVER_assigns(bufferPtr->array_ptr[bufferPtr->tail_index], bufferPtr->tail_index, bufferPtr->current_count)
__CPROVER_ensures(bufferPtr->array_ptr[__CPROVER_old(bufferPtr->tail_index)] == object_ptr)
__CPROVER_ensures(bufferPtr->tail_index ==
                  NEXT_IDX(__CPROVER_old(bufferPtr->tail_index), bufferPtr->buffer_total_count))
__CPROVER_ensures(bufferPtr->current_count == __CPROVER_old(bufferPtr->current_count) + 1u)
__CPROVER_ensures(__CPROVER_return_value == EB_ErrorNone);

static EbErrorType svt_circular_buffer_push_front(EbCircularBuffer *bufferPtr, EbPtr object_ptr)
__CPROVER_requires(CB_SHAPE(bufferPtr))
__CPROVER_assigns(bufferPtr->head_index, bufferPtr->current_count;
                  bufferPtr->head_index == 0: bufferPtr->array_ptr[bufferPtr->buffer_total_count - 1];
                  bufferPtr->head_index != 0: bufferPtr->array_ptr[bufferPtr->head_index - 1])
__CPROVER_ensures(bufferPtr->head_index ==
                  PREV_IDX(__CPROVER_old(bufferPtr->head_index), bufferPtr->buffer_total_count))
__CPROVER_ensures(bufferPtr->array_ptr[bufferPtr->head_index] == object_ptr)
__CPROVER_ensures(bufferPtr->current_count == __CPROVER_old(bufferPtr->current_count) + 1u)
__CPROVER_ensures(__CPROVER_return_value == EB_ErrorNone);

/* FIFO (singly linked through EbObjectWrapper.next_ptr) */
static EbErrorType svt_fifo_push_back(EbFifo *fifoPtr, EbObjectWrapper *wrapper_ptr)
__CPROVER_requires(__CPROVER_is_fresh(fifoPtr, sizeof(*fifoPtr)) &&
                   __CPROVER_is_fresh(wrapper_ptr, sizeof(*wrapper_ptr)))
__CPROVER_requires(fifoPtr->first_ptr == NULL ||
                   __CPROVER_is_fresh(fifoPtr->last_ptr, sizeof(EbObjectWrapper)))
__CPROVER_assigns(fifoPtr->first_ptr, fifoPtr->last_ptr, wrapper_ptr->next_ptr;
                  fifoPtr->first_ptr != NULL: fifoPtr->last_ptr->next_ptr)
__CPROVER_ensures(fifoPtr->last_ptr == wrapper_ptr && wrapper_ptr->next_ptr == NULL)
__CPROVER_ensures(__CPROVER_old(fifoPtr->first_ptr) == NULL
                      ? fifoPtr->first_ptr == wrapper_ptr
                      : (fifoPtr->first_ptr == __CPROVER_old(fifoPtr->first_ptr) &&
                         __CPROVER_old(fifoPtr->last_ptr)->next_ptr == wrapper_ptr))
__CPROVER_ensures(__CPROVER_return_value == EB_ErrorNone);

static EbErrorType svt_fifo_pop_front(EbFifo *fifoPtr, EbObjectWrapper **wrapper_ptr)
__CPROVER_requires(__CPROVER_is_fresh(fifoPtr, sizeof(*fifoPtr)) &&
                   __CPROVER_is_fresh(wrapper_ptr, sizeof(*wrapper_ptr)) &&
                   __CPROVER_is_fresh(fifoPtr->first_ptr, sizeof(EbObjectWrapper)))
__CPROVER_assigns(*wrapper_ptr, fifoPtr->first_ptr, fifoPtr->last_ptr)
__CPROVER_ensures(*wrapper_ptr == __CPROVER_old(fifoPtr->first_ptr))
__CPROVER_ensures(fifoPtr->first_ptr == __CPROVER_old(fifoPtr->first_ptr->next_ptr))
__CPROVER_ensures(fifoPtr->last_ptr == ((__CPROVER_old(fifoPtr->first_ptr) == __CPROVER_old(fifoPtr->last_ptr))
                                            ? (EbObjectWrapper *)NULL : __CPROVER_old(fifoPtr->last_ptr)))
__CPROVER_ensures(__CPROVER_return_value == EB_ErrorNone);

static EbBool svt_fifo_peak_front(EbFifo *fifoPtr)
__CPROVER_requires(__CPROVER_is_fresh(fifoPtr, sizeof(*fifoPtr)))
__CPROVER_assigns()
__CPROVER_ensures(__CPROVER_return_value == ((fifoPtr->first_ptr == NULL) ? EB_TRUE : EB_FALSE));
#endif /* C23_L0 */

#ifdef C23_L1
/* ------------------------------------------------------------------ L1: abstract views of the L0 callees.
 * View of a buffer = number of elements still in it (avail - pops).  Refinement of the view by the concrete
 * buffer (count of non-NULL slots, emptiness test) is the RI lemma set (c23_ri.c).  Type invariant assumed
 * of the queue contents (listed in the evidence): every element of a process queue is a live EbFifo and of
 * an object queue a live EbObjectWrapper; that is what the is_fresh in the ensures clauses stands for. */
static EbBool svt_circular_buffer_empty_check(EbCircularBuffer *bufferPtr)
__CPROVER_requires(bufferPtr == g_q->object_queue || bufferPtr == g_q->process_queue)
__CPROVER_assigns()
__CPROVER_ensures(__CPROVER_return_value == ((bufferPtr == g_q->object_queue)
                                                 ? (g_pops_obj == g_avail_obj ? EB_TRUE : EB_FALSE)
                                                 : (g_pops_proc == g_avail_proc ? EB_TRUE : EB_FALSE)));

static EbErrorType svt_circular_buffer_pop_front(EbCircularBuffer *bufferPtr, EbPtr *object_ptr)
__CPROVER_requires(__CPROVER_w_ok(object_ptr, sizeof(*object_ptr)))
__CPROVER_requires(bufferPtr == g_q->object_queue || bufferPtr == g_q->process_queue)
__CPROVER_requires((bufferPtr == g_q->object_queue) ? (g_pops_obj < g_avail_obj) : (g_pops_proc < g_avail_proc))
__CPROVER_assigns(*object_ptr, g_pops_obj, g_pops_proc)
__CPROVER_ensures((bufferPtr == g_q->object_queue)
                      ? (g_pops_obj == __CPROVER_old(g_pops_obj) + 1 && g_pops_proc == __CPROVER_old(g_pops_proc) &&
                         __CPROVER_is_fresh(*object_ptr, sizeof(EbObjectWrapper)))
                      : (g_pops_proc == __CPROVER_old(g_pops_proc) + 1 && g_pops_obj == __CPROVER_old(g_pops_obj) &&
                         __CPROVER_is_fresh(*object_ptr, sizeof(EbFifo)) && FIFO_TYPE_INV((EbFifo *)*object_ptr, g_q)));

/* the FIFO mutation must happen under that FIFO's own mutex */
static EbErrorType svt_fifo_push_back(EbFifo *fifoPtr, EbObjectWrapper *wrapper_ptr)
__CPROVER_requires(g_is_held(fifoPtr->lockout_mutex))
__CPROVER_requires(wrapper_ptr != NULL)
__CPROVER_assigns(g_fifo_pushes, g_last_fifo, g_last_obj, g_last_sem, g_last_fmutex)
__CPROVER_ensures(g_fifo_pushes == __CPROVER_old(g_fifo_pushes) + 1 && g_last_fifo == GID(fifoPtr) &&
                  g_last_obj == GID(wrapper_ptr) && g_last_sem == GID(fifoPtr->counting_semaphore) &&
                  g_last_fmutex == GID(fifoPtr->lockout_mutex));

static EbErrorType svt_muxing_queue_assignation(EbMuxingQueue *queue_ptr)
__CPROVER_requires(__CPROVER_is_fresh(queue_ptr, sizeof(*queue_ptr)) && queue_ptr == g_q)
__CPROVER_requires(__CPROVER_is_fresh(queue_ptr->object_queue, sizeof(EbCircularBuffer)) &&
                   __CPROVER_is_fresh(queue_ptr->process_queue, sizeof(EbCircularBuffer)))
__CPROVER_requires(g_pops_obj == 0 && g_pops_proc == 0 && g_fifo_pushes == 0 && g_posts == 0 && g_post_matches == 1)
__CPROVER_requires(g_nheld >= 0 && g_nheld <= 1)   /* at most the queue's own mutex (held by the caller) */
__CPROVER_requires(g_nheld == 0 || g_held[0] == queue_ptr->lockout_mutex)
__CPROVER_assigns(g_pops_obj, g_pops_proc, g_fifo_pushes, g_posts, g_nheld, g_locks, g_unlocks, g_last_lock,
                  g_last_post, g_last_fifo, g_last_obj, g_last_sem, g_last_fmutex, g_post_matches, g_sem_w_value,
                  __CPROVER_object_whole(g_held))
/* stops only when one of the two queues is exhausted: no object waits while a consumer waits */
__CPROVER_ensures(g_pops_obj == g_avail_obj || g_pops_proc == g_avail_proc)
/* pairs them one to one, each pair = one push on the FIFO (under its mutex) + one post on ITS semaphore */
__CPROVER_ensures(g_pops_obj == g_pops_proc && g_fifo_pushes == g_pops_obj && g_posts == g_fifo_pushes)
__CPROVER_ensures(g_post_matches == 1)
/* lock balance: exactly the mutexes held at entry are held at exit */
__CPROVER_ensures(g_nheld == __CPROVER_old(g_nheld) && g_locks == g_unlocks + (unsigned)g_nheld - (unsigned)__CPROVER_old(g_nheld) + __CPROVER_old(g_locks) - __CPROVER_old(g_unlocks))
__CPROVER_ensures(__CPROVER_return_value == EB_ErrorNone);
#endif /* C23_L1 */
#ifdef C23_L2
#include "c23_l2.h"
#endif
#ifdef C23_L3
#include "c23_l3.h"
#endif
#endif

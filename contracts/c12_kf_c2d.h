/* witness regions of the listed CODE->DOC findings (known_findings.json); empty unless the define is given */
#ifndef KF_C2D_enc_mode
#define KF_C2D_enc_mode
#endif
#ifndef KF_C2D_width
#define KF_C2D_width
#endif
#ifndef KF_C2D_height
#define KF_C2D_height
#endif
#ifndef KF_C2D_color_format
#define KF_C2D_color_format
#endif
#ifndef KF_C2D_hier_levels
#define KF_C2D_hier_levels
#endif
#ifndef KF_C2D_pred_structure
#define KF_C2D_pred_structure
#endif
#ifndef KF_C2D_target_socket
#define KF_C2D_target_socket
#endif
#ifndef KF_C2D_qp
#define KF_C2D_qp
#endif
#ifndef KF_C2D_max_qp
#define KF_C2D_max_qp
#endif
#ifndef KF_C2D_min_qp
#define KF_C2D_min_qp
#endif
#ifndef KF_C2D_aq
#define KF_C2D_aq
#endif
#ifndef KF_C2D_intra_period
#define KF_C2D_intra_period
#endif
#ifndef KF_C2D_irefresh
#define KF_C2D_irefresh
#endif
#ifndef KF_C2D_cten
#define KF_C2D_cten
#endif
#ifndef KF_C2D_tile_rows
#define KF_C2D_tile_rows
#endif
#ifndef KF_C2D_tile_cols
#define KF_C2D_tile_cols
#endif
#ifndef KF_C2D_lad
#define KF_C2D_lad
#endif
#ifndef KF_C2D_cdef
#define KF_C2D_cdef
#endif
#ifndef KF_C2D_sg
#define KF_C2D_sg
#endif
#ifndef KF_C2D_wn
#define KF_C2D_wn
#endif
#ifndef KF_C2D_obmc
#define KF_C2D_obmc
#endif
#ifndef KF_C2D_pred_me
#define KF_C2D_pred_me
#endif
#ifndef KF_C2D_scm
#define KF_C2D_scm
#endif
#ifndef KF_C2D_intrabc
#define KF_C2D_intrabc
#endif
#ifndef KF_C2D_hbd_md
#define KF_C2D_hbd_md
#endif
#ifndef KF_C2D_palette
#define KF_C2D_palette
#endif
#ifndef KF_C2D_altref_strength
#define KF_C2D_altref_strength
#endif
#ifndef KF_C2D_altref_nframes
#define KF_C2D_altref_nframes
#endif
#ifndef KF_C2D_search_w
#define KF_C2D_search_w
#endif
#ifndef KF_C2D_search_h
#define KF_C2D_search_h
#endif
#ifndef KF_C2D_chroma_mode
#define KF_C2D_chroma_mode
#endif
#ifndef KF_C2D_frame_rate
#define KF_C2D_frame_rate
#endif
#ifndef KF_C2D_mrp
#define KF_C2D_mrp
#endif
#ifndef KF_C2D_tf_level
#define KF_C2D_tf_level
#endif
#ifndef KF_C2D_film_grain
#define KF_C2D_film_grain
#endif
#ifndef KF_C2D_bipred
#define KF_C2D_bipred
#endif
#ifndef KF_C2D_compound
#define KF_C2D_compound
#endif
#ifndef KF_C2D_recode_loop
#define KF_C2D_recode_loop
#endif
#ifndef KF_C2D_profile
#define KF_C2D_profile
#endif

/* C22: "every order-hint distance computation returns the signed distance modulo the order-hint
 * period".  Spec (from the property statement + AV1 spec 7.8 get_relative_dist): with N = 2^bits,
 * r is THE representative of (a - b) mod N in [-N/2, N/2).  That determines r uniquely, so all five
 * implementations that satisfy it are pairwise equal. */
#ifndef C22_H
#define C22_H
#define PRE_RELDIST(oh, a, b)                                                          \
    ((oh)->order_hint_bits >= 1 && (oh)->order_hint_bits <= 8 && (a) >= 0 &&           \
     (a) < (1 << (oh)->order_hint_bits) && (b) >= 0 && (b) < (1 << (oh)->order_hint_bits))
#define POST_RELDIST(oh, a, b, r)                                                      \
    ((oh)->enable_order_hint                                                           \
         ? ((r) >= -(1 << ((oh)->order_hint_bits - 1)) && (r) < (1 << ((oh)->order_hint_bits - 1)) && \
            ((((r) - ((a) - (b))) & ((1 << (oh)->order_hint_bits) - 1)) == 0))         \
         : ((r) == 0))
#endif

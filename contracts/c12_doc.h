/* C12 oracle: the DOCUMENTED parameter domain, one clause per parameter.
 * Source of each clause: range column of Docs/svt-av1_encoder_user_guide.md (UG:<line>) or the field comment in
 * Source/API/EbSvtAv1Enc.h (H).  Written from the documentation, NOT from verify_settings.
 * c = post-copy configuration (scs->static_config), s = SequenceControlSet (for the copied picture size).
 * X(name, documented-valid predicate) */
#ifndef C12_DOC_H
#define C12_DOC_H
#define IN(x, lo, hi) ((long)(x) >= (long)(lo) && (long)(x) <= (long)(hi))
#define DOC_CLAUSES(X) \
 X(enc_mode,        IN(c->enc_mode,0,8))                          /* UG:229 [0 - 8] */ \
 X(width,           IN(s->max_input_luma_width,64,4096))          /* UG:144 [64 - 4096] */ \
 X(height,          IN(s->max_input_luma_height,0,2304))          /* UG:145 [0 - 2304] */ \
 X(bit_depth,       c->encoder_bit_depth==8 || c->encoder_bit_depth==10) /* UG:153 [8 , 10] */ \
 X(color_format,    IN(c->encoder_color_format,0,3))              /* UG:148 [0-3] */ \
 X(profile,         IN(c->profile,0,2))                           /* UG:149 [0-2] */ \
 X(hier_levels,     IN(c->hierarchical_levels,0,5))               /* UG:155 [0 - 5] */ \
 X(pred_structure,  IN(c->pred_structure,0,2))                    /* UG:156 [0-2] */ \
 X(hdr,             IN(c->high_dynamic_range_input,0,1))          /* UG:157 [0-1] */ \
 X(target_socket,   IN(c->target_socket,-1,1))                    /* UG:161 [-1,1] */ \
 X(unpin,           IN(c->unpin,0,1))                             /* UG:160 [0, 1] */ \
 X(rc_mode,         IN(c->rate_control_mode,0,2))                 /* UG:166 [0 - 2] */ \
 X(qp,              IN(c->qp,0,63))                               /* UG:167 [0 - 63] */ \
 X(max_qp,          IN(c->max_qp_allowed,0,63))                   /* UG:171 [0 - 63] */ \
 X(min_qp,          IN(c->min_qp_allowed,0,63))                   /* UG:172 [0 - 63] */ \
 X(aq,              IN(c->enable_adaptive_quantization,0,2))      /* UG:173 [0 - 2] */ \
 X(intra_period,    IN(c->intra_period_length,-2,2147483646L))    /* UG:223 [-2 - 2^31-2] */ \
 X(irefresh,        IN(c->intra_refresh_type,1,2))                /* UG:224 [1 - 2] */ \
 X(cten,            IN(c->compressed_ten_bit_format,0,1))         /* UG:230 [0-1] */ \
 X(tile_rows,       IN(c->tile_rows,0,6))                         /* UG:231 [0-6] */ \
 X(tile_cols,       IN(c->tile_columns,0,6))                      /* UG:232 [0-6] */ \
 X(lad,             IN(c->look_ahead_distance,0,120) || c->look_ahead_distance == (uint32_t)~0) /* UG:233 [0 - 120]; ~0 = library default (H) */ \
 X(dlf,             IN(c->disable_dlf_flag,0,1))                  /* UG:234 */ \
 X(tpl,             IN(c->enable_tpl_la,0,1))                     /* UG:235 */ \
 X(cdef,            IN(c->cdef_level,-1,5))                       /* UG:236 [0-5], -1 default */ \
 X(restoration,     IN(c->enable_restoration_filtering,-1,1))     /* UG:237 */ \
 X(sg,              IN(c->sg_filter_mode,-1,4))                   /* UG:238 */ \
 X(wn,              IN(c->wn_filter_mode,-1,3))                   /* UG:239 */ \
 X(mfmv,            IN(c->enable_mfmv,-1,1))                      /* UG:240 */ \
 X(redundant,       IN(c->enable_redundant_blk,-1,1))             /* UG:241 */ \
 X(spatial_sse,     IN(c->spatial_sse_full_loop_level,-1,1))      /* UG:242 */ \
 X(over_bndry,      IN(c->over_bndry_blk,-1,1))                   /* UG:243 */ \
 X(new_nearest,     IN(c->new_nearest_comb_inject,-1,1))          /* UG:244 */ \
 X(nsq_table,       IN(c->nsq_table,-1,1))                        /* UG:245 */ \
 X(cdf_update,      IN(c->frame_end_cdf_update,-1,1))             /* UG:246 */ \
 X(chroma_mode,     IN(c->set_chroma_mode,-1,3))                  /* UG:247 */ \
 X(disable_cfl,     IN(c->disable_cfl_flag,-1,1))                 /* UG:248 */ \
 X(local_warp,      IN(c->enable_warped_motion,-1,1))             /* UG:249 */ \
 X(global_motion,   IN(c->enable_global_motion,0,1))              /* UG:250 */ \
 X(pic_rate_est,    IN(c->pic_based_rate_est,-1,1))               /* UG:251 */ \
 X(angle_delta,     IN(c->intra_angle_delta,-1,1))                /* UG:252 */ \
 X(interintra,      IN(c->inter_intra_compound,-1,1))             /* UG:253 */ \
 X(paeth,           IN(c->enable_paeth,-1,1))                     /* UG:254 */ \
 X(smooth,          IN(c->enable_smooth,-1,1))                    /* UG:255 */ \
 X(obmc,            IN(c->obmc_level,-1,3))                       /* UG:257 */ \
 X(rdoq,            IN(c->rdoq_level,-1,1))                       /* UG:258 */ \
 X(filter_intra,    IN(c->filter_intra_level,-1,1))               /* UG:259 */ \
 X(intra_edge,      IN(c->enable_intra_edge_filter,-1,1))         /* UG:260 */ \
 X(pred_me,         IN(c->pred_me,-1,5))                          /* UG:261 */ \
 X(bipred,          IN(c->bipred_3x3_inject,-1,2))                /* UG:262 */ \
 X(compound,        IN(c->compound_level,-1,2))                   /* UG:263 */ \
 X(default_me_hme,  IN(c->use_default_me_hme,0,1))                /* UG:264 */ \
 X(hme,             IN(c->enable_hme_flag,0,1))                   /* UG:265 */ \
 X(hme_l0,          IN(c->enable_hme_level0_flag,0,1))            /* UG:266 */ \
 X(hme_l1,          IN(c->enable_hme_level1_flag,0,1))            /* UG:267 */ \
 X(hme_l2,          IN(c->enable_hme_level2_flag,0,1))            /* UG:268 */ \
 X(ext_block,       IN(c->ext_block_flag,0,1))                    /* UG:269 */ \
 X(search_w,        IN(c->search_area_width,1,480))               /* UG:270 */ \
 X(search_h,        IN(c->search_area_height,1,480))              /* UG:271 */ \
 X(scm,             IN(c->screen_content_mode,0,2))               /* UG:272 */ \
 X(intrabc,         IN(c->intrabc_mode,-1,3))                     /* UG:273 */ \
 X(hbd_md,          IN(c->enable_hbd_mode_decision,-1,2))         /* UG:274 [0-2]; -1 = DEFAULT is the library default (init_parameter) */ \
 X(palette,         IN(c->palette_level,-1,6))                    /* UG:275 */ \
 X(umv,             IN(c->unrestricted_motion_vector,0,1))        /* UG:276 */ \
 X(speed_ctrl,      IN(c->speed_control_flag,0,1))                /* UG:279 */ \
 X(film_grain,      IN(c->film_grain_denoise_strength,0,50))      /* UG:280 */ \
 X(tf_level,        IN(c->tf_level,-1,3))                         /* UG:281 */ \
 X(altref_strength, IN(c->altref_strength,0,6))                   /* UG:282 */ \
 X(altref_nframes,  IN(c->altref_nframes,0,13))                   /* UG:283 says [0-10] but the library DEFAULT is 13 (ALTREF_MAX_NFRAMES): union taken */ \
 X(overlays,        IN(c->enable_overlays,0,1))                   /* UG:284 */ \
 X(stat_report,     IN(c->stat_report,0,1))                       /* UG:287 */ \
 X(recode_loop,     IN(c->recode_loop,0,3))                       /* UG:218 */ \
 X(bias_pct,        IN(c->vbr_bias_pct,0,100))                    /* UG:213 */ \
 X(undershoot,      IN(c->under_shoot_pct,0,100))                 /* UG:216 */ \
 X(overshoot,       IN(c->over_shoot_pct,0,1000))                 /* UG:217 [0-100], H: "can range from 0-1000": union taken */ \
 X(kf_qidx_off,     IN(c->key_frame_qindex_offset,-256,255))      /* UG:177 [-256, 255] */ \
 X(kf_cqidx_off,    IN(c->key_frame_chroma_qindex_offset,-256,255)) /* UG:179 [-256, 255] */ \
 X(qidx_off_l0,     c->use_fixed_qindex_offsets != 1 || (IN(c->qindex_offsets[0],-256,255) && IN(c->chroma_qindex_offsets[0],-256,255))) /* UG:176/178 vi in [-256,255] */ \
 X(qidx_off_l5,     c->use_fixed_qindex_offsets != 1 || (IN(c->qindex_offsets[5],-256,255) && IN(c->chroma_qindex_offsets[5],-256,255))) /* same, last layer */ \
 X(frame_rate,      c->frame_rate > 0 && c->frame_rate <= (240u << 16)) /* H: frame rate, max 240 fps (Annex A) */
/* not a clause: mrp_level (UG:256 [0-9]) is documented but never copied into the encoder (copy_api_from_app
 * ignores it), so no value of it can be rejected or have an effect — recorded in DESIGN as an observation. */
#endif

/* C23 L3: the public operations of the system resource manager, with the ghost lock/semaphore model.
 * Callees (muxing layer, FIFO primitives) by abstract contracts that (a) demand the right mutex is held at
 * the moment of the mutation and (b) log what was done, so the enforced function's postcondition can say
 * "exactly one push of exactly this object on exactly this queue". */
unsigned g_getfull_calls; int g_fifo_len; int g_quit_posted; uint32_t g_lc_after;

/* ---- abstract callees ---- */
static EbErrorType svt_muxing_queue_object_push_back(EbMuxingQueue *queue_ptr, EbObjectWrapper *object_ptr)
__CPROVER_requires(queue_ptr != NULL && g_is_held(queue_ptr->lockout_mutex))
__CPROVER_assigns(g_mq_pushes, g_mq_last_q, g_mq_last_obj, g_mq_last_front)
__CPROVER_ensures(g_mq_pushes == __CPROVER_old(g_mq_pushes) + 1 && g_mq_last_q == GID(queue_ptr) &&
                  g_mq_last_obj == GID(object_ptr) && g_mq_last_front == 0);

/* OWNERSHIP TRANSFER: once the wrapper is on the empty queue a waiting producer may pop it (under the FIFO's
 * mutex, not this one) and reset live_count.  So (a) it must already be marked released when it is queued, and
 * (b) the releaser must not write the wrapper afterwards: the contract havocs live_count (the new owner's
 * write) and records the value, and the caller's postcondition demands it is still that value on return. */
static EbErrorType svt_muxing_queue_object_push_front(EbMuxingQueue *queue_ptr, EbObjectWrapper *object_ptr)
__CPROVER_requires(queue_ptr != NULL && g_is_held(queue_ptr->lockout_mutex))
__CPROVER_requires(object_ptr->live_count == EB_ObjectWrapperReleasedValue)
__CPROVER_assigns(g_mq_pushes, g_mq_last_q, g_mq_last_obj, g_mq_last_front, g_lc_after, object_ptr->live_count)
__CPROVER_ensures(g_mq_pushes == __CPROVER_old(g_mq_pushes) + 1 && g_mq_last_q == GID(queue_ptr) &&
                  g_mq_last_obj == GID(object_ptr) && g_mq_last_front == 1 && g_lc_after == object_ptr->live_count);

static EbErrorType svt_release_process(EbFifo *process_fifo_ptr)
__CPROVER_requires(process_fifo_ptr != NULL && g_nheld == 0)
__CPROVER_assigns(g_relproc_calls, g_relproc_last)
__CPROVER_ensures(g_relproc_calls == __CPROVER_old(g_relproc_calls) + 1 && g_relproc_last == GID(process_fifo_ptr));

static EbErrorType svt_fifo_pop_front(EbFifo *fifoPtr, EbObjectWrapper **wrapper_ptr)
__CPROVER_requires(g_is_held(fifoPtr->lockout_mutex))
__CPROVER_requires(fifoPtr->first_ptr != NULL)      /* the FIFO is non-empty whenever a pop is attempted */
__CPROVER_requires(__CPROVER_w_ok(wrapper_ptr, sizeof(*wrapper_ptr)))
__CPROVER_assigns(*wrapper_ptr, fifoPtr->first_ptr, fifoPtr->last_ptr, g_fifo_pops, g_fifo_len)
__CPROVER_ensures(*wrapper_ptr == __CPROVER_old(fifoPtr->first_ptr) && g_fifo_pops == __CPROVER_old(g_fifo_pops) + 1 &&
                  g_fifo_len == __CPROVER_old(g_fifo_len) - 1);

static EbBool svt_fifo_peak_front(EbFifo *fifoPtr)
__CPROVER_requires(g_is_held(fifoPtr->lockout_mutex))
__CPROVER_assigns()
__CPROVER_ensures(__CPROVER_return_value == ((fifoPtr->first_ptr == NULL) ? EB_TRUE : EB_FALSE));

#define FIFO_SHAPE(f)                                                                                   \
    (__CPROVER_is_fresh(f, sizeof(*(f))) && (f)->lockout_mutex != NULL && (f)->counting_semaphore != NULL && \
     (f)->lockout_mutex != (f)->counting_semaphore)
/* semaphore invariant of one FIFO (ghost): value <= length + [shutdown post issued]; a shutdown post implies
 * quit_signal; length 0 <=> first_ptr NULL.  Established by construction (0 <= 0), preserved by the
 * assignation (push before post: U23.3), by shutdown (quit before post: U23.6) and by the gets below. */
#define SEM_INV(f)                                                                                      \
    (g_sem_w == (f)->counting_semaphore && g_fifo_len >= 0 && g_fifo_len < 1000000 &&                   \
     (g_quit_posted == 0 || g_quit_posted == 1) && g_sem_w_value <= (unsigned)(g_fifo_len + g_quit_posted) && \
     (!g_quit_posted || (f)->quit_signal) && ((g_fifo_len == 0) == ((f)->first_ptr == NULL)))
#define L3_ZERO (g_nheld == 0 && g_locks == 0 && g_unlocks == 0 && g_waits == 0 && g_posts == 0 && g_relproc_calls == 0 && \
                 g_fifo_pops == 0 && g_mq_pushes == 0 && g_getfull_calls == 0 && g_order_ok == 1)
#define L3_GHOST g_nheld, g_locks, g_unlocks, g_last_lock, g_waits, g_last_wait, g_posts, g_last_post, g_sem_w_value,   \
                 g_relproc_calls, g_relproc_last, g_fifo_pops, g_fifo_len, g_mq_pushes, g_mq_last_q, g_mq_last_obj,       \
                 g_mq_last_front, g_getfull_calls, g_order_ok, g_lc_after, __CPROVER_object_whole(g_held)

#ifndef C23_L3_NONBLOCKING
EbErrorType svt_get_full_object(EbFifo *full_fifo_ptr, EbObjectWrapper **wrapper_dbl_ptr)
__CPROVER_requires(FIFO_SHAPE(full_fifo_ptr) && __CPROVER_is_fresh(wrapper_dbl_ptr, sizeof(*wrapper_dbl_ptr)))
__CPROVER_requires(SEM_INV(full_fifo_ptr) && L3_ZERO)
__CPROVER_assigns(L3_GHOST, *wrapper_dbl_ptr, full_fifo_ptr->first_ptr, full_fifo_ptr->last_ptr)
/* announces itself exactly once, and before it blocks (order checked in the wait hook) */
__CPROVER_ensures(g_relproc_calls == 1 && g_relproc_last == GID(full_fifo_ptr) && g_order_ok == 1)
/* blocks exactly once, on its own semaphore, holding no mutex (checked in the model) */
__CPROVER_ensures(g_waits == 1 && g_last_wait == full_fifo_ptr->counting_semaphore)
__CPROVER_ensures(g_nheld == 0 && g_locks == 1 && g_unlocks == 1 && g_last_lock == full_fifo_ptr->lockout_mutex)
__CPROVER_ensures(__CPROVER_old(full_fifo_ptr->quit_signal)
                      ? (__CPROVER_return_value == EB_NoErrorFifoShutdown && *wrapper_dbl_ptr == NULL && g_fifo_pops == 0)
                      : (__CPROVER_return_value == EB_ErrorNone && g_fifo_pops == 1 && *wrapper_dbl_ptr != NULL &&
                         *wrapper_dbl_ptr == __CPROVER_old(full_fifo_ptr->first_ptr)))
/* the semaphore invariant is re-established */
__CPROVER_ensures(g_sem_w_value <= (unsigned)(g_fifo_len + g_quit_posted));
#else
EbErrorType svt_get_full_object(EbFifo *full_fifo_ptr, EbObjectWrapper **wrapper_dbl_ptr)
__CPROVER_requires(full_fifo_ptr != NULL && g_nheld == 0 && __CPROVER_w_ok(wrapper_dbl_ptr, sizeof(*wrapper_dbl_ptr)))
__CPROVER_assigns(g_getfull_calls, *wrapper_dbl_ptr)
__CPROVER_ensures(g_getfull_calls == __CPROVER_old(g_getfull_calls) + 1);

EbErrorType svt_get_full_object_non_blocking(EbFifo *full_fifo_ptr, EbObjectWrapper **wrapper_dbl_ptr)
__CPROVER_requires(FIFO_SHAPE(full_fifo_ptr) && __CPROVER_is_fresh(wrapper_dbl_ptr, sizeof(*wrapper_dbl_ptr)))
__CPROVER_requires(L3_ZERO)
__CPROVER_assigns(L3_GHOST, *wrapper_dbl_ptr)
__CPROVER_ensures(g_relproc_calls == 1 && g_relproc_last == GID(full_fifo_ptr))
__CPROVER_ensures(g_nheld == 0 && g_locks == 1 && g_unlocks == 1 && g_last_lock == full_fifo_ptr->lockout_mutex)
/* never waits on a semaphore itself; on an empty or shut-down FIFO it returns NULL at once */
__CPROVER_ensures(g_waits == 0)
__CPROVER_ensures((full_fifo_ptr->quit_signal || full_fifo_ptr->first_ptr == NULL)
                      ? (*wrapper_dbl_ptr == NULL && g_getfull_calls == 0)
                      : (g_getfull_calls == 1))
__CPROVER_ensures(__CPROVER_return_value == EB_ErrorNone);
#endif

#ifdef C23_L3_GETEMPTY
/* This unit keeps the REAL svt_fifo_pop_front (L0-verified) because the function goes on to write into the
 * popped wrapper: a contract-havoced out-pointer makes CBMC case-split over every object (no answer in 10 min).
 * The harness owns the FIFO object (g_shut_fifo) so the lock/unlock hooks can snapshot first_ptr: the pop is
 * shown to happen inside the FIFO's critical section by first_ptr being unchanged before the lock and after
 * the unlock. */
EbErrorType svt_get_empty_object(EbFifo *empty_fifo_ptr, EbObjectWrapper **wrapper_dbl_ptr)
__CPROVER_requires(__CPROVER_rw_ok(empty_fifo_ptr, sizeof(*empty_fifo_ptr)) && empty_fifo_ptr == g_shut_fifo &&
                   empty_fifo_ptr->lockout_mutex != NULL && empty_fifo_ptr->counting_semaphore != NULL &&
                   empty_fifo_ptr->lockout_mutex != empty_fifo_ptr->counting_semaphore)
__CPROVER_requires(__CPROVER_is_fresh(wrapper_dbl_ptr, sizeof(*wrapper_dbl_ptr)))
__CPROVER_requires(empty_fifo_ptr->first_ptr == NULL ||
                   __CPROVER_is_fresh(empty_fifo_ptr->first_ptr, sizeof(EbObjectWrapper)))
__CPROVER_requires(SEM_INV(empty_fifo_ptr) && g_quit_posted == 0 && L3_ZERO)
__CPROVER_assigns(L3_GHOST, g_first_at_lock, g_first_at_unlock, *wrapper_dbl_ptr, empty_fifo_ptr->first_ptr,
                  empty_fifo_ptr->last_ptr;
                  empty_fifo_ptr->first_ptr != NULL: empty_fifo_ptr->first_ptr->live_count,
                                                     empty_fifo_ptr->first_ptr->release_enable)
__CPROVER_ensures(g_relproc_calls == 1 && g_relproc_last == GID(empty_fifo_ptr) && g_order_ok == 1)
__CPROVER_ensures(g_waits == 1 && g_last_wait == empty_fifo_ptr->counting_semaphore)
__CPROVER_ensures(g_nheld == 0 && g_locks == 1 && g_unlocks == 1 && g_last_lock == empty_fifo_ptr->lockout_mutex)
/* the head (posting order) is handed out, and the list advanced, inside the critical section only */
__CPROVER_ensures(*wrapper_dbl_ptr != NULL && *wrapper_dbl_ptr == __CPROVER_old(empty_fifo_ptr->first_ptr))
__CPROVER_ensures(empty_fifo_ptr->first_ptr == __CPROVER_old(empty_fifo_ptr->first_ptr->next_ptr))
__CPROVER_ensures(g_first_at_lock == GID(__CPROVER_old(empty_fifo_ptr->first_ptr)) &&
                  g_first_at_unlock == GID(empty_fifo_ptr->first_ptr))
/* a wrapper handed out as empty starts with no references and release enabled */
__CPROVER_ensures((*wrapper_dbl_ptr)->live_count == 0 && (*wrapper_dbl_ptr)->release_enable == EB_TRUE)
__CPROVER_ensures(g_sem_w_value + 1 <= (unsigned)g_fifo_len)
__CPROVER_ensures(__CPROVER_return_value == EB_ErrorNone);
#endif

/* ---- wrapper operations: all under the EMPTY queue's mutex of the wrapper's own resource ---- */
#define WRAP_SHAPE(o)                                                                                   \
    (__CPROVER_is_fresh(o, sizeof(*(o))) && __CPROVER_is_fresh((o)->system_resource_ptr, sizeof(EbSystemResource)) && \
     __CPROVER_is_fresh((o)->system_resource_ptr->empty_queue, sizeof(EbMuxingQueue)) &&                \
     (o)->system_resource_ptr->empty_queue->lockout_mutex != NULL)
#define WRAP_LOCK_BALANCED(o)                                                                           \
    (g_nheld == 0 && g_locks == 1 && g_unlocks == 1 && g_last_lock == (o)->system_resource_ptr->empty_queue->lockout_mutex)

EbErrorType svt_release_object(EbObjectWrapper *object_ptr)
__CPROVER_requires(WRAP_SHAPE(object_ptr) && L3_ZERO)
__CPROVER_assigns(L3_GHOST, object_ptr->live_count)
__CPROVER_ensures(WRAP_LOCK_BALANCED(object_ptr))
/* returned to its pool exactly when the last reference is released (and release is enabled): then exactly one
 * push of exactly this wrapper onto the empty queue of ITS resource, and the wrapper is marked released */
__CPROVER_ensures(((__CPROVER_old(object_ptr->live_count) <= 1) && object_ptr->release_enable == EB_TRUE)
                      ? (g_mq_pushes == 1 && g_mq_last_obj == GID(object_ptr) &&
                         g_mq_last_q == GID(object_ptr->system_resource_ptr->empty_queue) &&
                         /* marked released BEFORE it was queued (requires of the push) and untouched since */
                         object_ptr->live_count == g_lc_after)
                      : (g_mq_pushes == 0 &&
                         object_ptr->live_count == (__CPROVER_old(object_ptr->live_count) == 0
                                                        ? 0 : __CPROVER_old(object_ptr->live_count) - 1)))
__CPROVER_ensures(__CPROVER_return_value == EB_ErrorNone);

EbErrorType svt_post_full_object(EbObjectWrapper *object_ptr)
__CPROVER_requires(__CPROVER_is_fresh(object_ptr, sizeof(*object_ptr)) &&
                   __CPROVER_is_fresh(object_ptr->system_resource_ptr, sizeof(EbSystemResource)) &&
                   __CPROVER_is_fresh(object_ptr->system_resource_ptr->full_queue, sizeof(EbMuxingQueue)) &&
                   object_ptr->system_resource_ptr->full_queue->lockout_mutex != NULL && L3_ZERO)
__CPROVER_assigns(L3_GHOST)
/* exactly one push of exactly this wrapper at the BACK of the full queue of its resource, under that queue's mutex */
__CPROVER_ensures(g_mq_pushes == 1 && g_mq_last_obj == GID(object_ptr) && g_mq_last_front == 0 &&
                  g_mq_last_q == GID(object_ptr->system_resource_ptr->full_queue))
__CPROVER_ensures(g_nheld == 0 && g_locks == 1 && g_unlocks == 1 &&
                  g_last_lock == object_ptr->system_resource_ptr->full_queue->lockout_mutex)
__CPROVER_ensures(__CPROVER_return_value == EB_ErrorNone);

EbErrorType svt_object_inc_live_count(EbObjectWrapper *wrapper_ptr, uint32_t increment_number)
__CPROVER_requires(WRAP_SHAPE(wrapper_ptr) && L3_ZERO)
__CPROVER_assigns(L3_GHOST, wrapper_ptr->live_count)
__CPROVER_ensures(wrapper_ptr->live_count == __CPROVER_old(wrapper_ptr->live_count) + increment_number)
__CPROVER_ensures(WRAP_LOCK_BALANCED(wrapper_ptr) && g_mq_pushes == 0 && __CPROVER_return_value == EB_ErrorNone);

EbErrorType svt_object_release_enable(EbObjectWrapper *wrapper_ptr)
__CPROVER_requires(WRAP_SHAPE(wrapper_ptr) && L3_ZERO)
__CPROVER_assigns(L3_GHOST, wrapper_ptr->release_enable)
__CPROVER_ensures(wrapper_ptr->release_enable == EB_TRUE)
__CPROVER_ensures(WRAP_LOCK_BALANCED(wrapper_ptr) && g_mq_pushes == 0 && __CPROVER_return_value == EB_ErrorNone);

EbErrorType svt_object_release_disable(EbObjectWrapper *wrapper_ptr)
__CPROVER_requires(WRAP_SHAPE(wrapper_ptr) && L3_ZERO)
__CPROVER_assigns(L3_GHOST, wrapper_ptr->release_enable)
__CPROVER_ensures(wrapper_ptr->release_enable == EB_FALSE)
__CPROVER_ensures(WRAP_LOCK_BALANCED(wrapper_ptr) && g_mq_pushes == 0 && __CPROVER_return_value == EB_ErrorNone);

/* ---- shutdown ---- */
#ifndef C23_L3_SHUTDOWN_LOOP
static EbErrorType svt_fifo_shutdown(EbFifo *fifo_ptr)
/* the harness owns the FIFO object (so the post hook can look at it): no is_fresh here */
__CPROVER_requires(__CPROVER_rw_ok(fifo_ptr, sizeof(*fifo_ptr)) && fifo_ptr == g_shut_fifo &&
                   fifo_ptr->lockout_mutex != NULL && fifo_ptr->counting_semaphore != NULL &&
                   fifo_ptr->lockout_mutex != fifo_ptr->counting_semaphore)
__CPROVER_requires(L3_ZERO && g_sem_w == fifo_ptr->counting_semaphore)
__CPROVER_assigns(L3_GHOST, fifo_ptr->quit_signal)
/* quit_signal is set under the FIFO mutex and BEFORE the single wake-up post on this FIFO's semaphore
 * (order_ok is cleared by the post hook if the flag is not yet set or the mutex is still held) */
__CPROVER_ensures(fifo_ptr->quit_signal == EB_TRUE && g_posts == 1 && g_last_post == fifo_ptr->counting_semaphore &&
                  g_order_ok == 1)
__CPROVER_ensures(g_nheld == 0 && g_locks == 1 && g_unlocks == 1 && g_last_lock == fifo_ptr->lockout_mutex)
__CPROVER_ensures(g_sem_w_value == __CPROVER_old(g_sem_w_value) + 1)
__CPROVER_ensures(__CPROVER_return_value == EB_ErrorNone);
#else
static EbErrorType svt_fifo_shutdown(EbFifo *fifo_ptr)
__CPROVER_requires(fifo_ptr != NULL && g_nheld == 0)
__CPROVER_assigns(g_shutdowns, g_shutdown_last)
__CPROVER_ensures(g_shutdowns == __CPROVER_old(g_shutdowns) + 1 && g_shutdown_last == GID(fifo_ptr));

/* abstract view of the consumer FIFO table: index in range, element is a live FIFO (type invariant) */
EbFifo *svt_system_resource_get_consumer_fifo(const EbSystemResource *resource_ptr, uint32_t index)
__CPROVER_requires(resource_ptr != NULL && resource_ptr->full_queue != NULL &&
                   index < resource_ptr->full_queue->process_total_count)
__CPROVER_assigns()
__CPROVER_ensures(__CPROVER_is_fresh(__CPROVER_return_value, sizeof(EbFifo)));

EbErrorType svt_shutdown_process(const EbSystemResource *resource_ptr)
__CPROVER_requires(resource_ptr == NULL ||
                   (__CPROVER_is_fresh(resource_ptr, sizeof(*resource_ptr)) &&
                    (resource_ptr->full_queue == NULL ||
                     __CPROVER_is_fresh(resource_ptr->full_queue, sizeof(EbMuxingQueue)))))
__CPROVER_requires(g_shutdowns == 0 && g_nheld == 0)
__CPROVER_assigns(g_shutdowns, g_shutdown_last)
/* every consumer FIFO of the resource is shut down exactly once; nothing to do for a partially built resource */
__CPROVER_ensures(g_shutdowns == ((resource_ptr == NULL || resource_ptr->full_queue == NULL)
                                      ? 0 : resource_ptr->full_queue->process_total_count))
__CPROVER_ensures(__CPROVER_return_value == EB_ErrorNone);
#endif

/* C23 L2: svt_muxing_queue_object_push_back / push_front / svt_release_process.
 * Callees by abstract contract: buffer pushes and the assignation are logged (which buffer, which element,
 * front/back, order), and the assignation must run with the queue mutex held unless the queue is still
 * being constructed single-threaded (g_single_threaded, set only by constructor harnesses). */
static EbErrorType svt_circular_buffer_push_back(EbCircularBuffer *bufferPtr, EbPtr object_ptr)
__CPROVER_requires(bufferPtr != NULL)
__CPROVER_assigns(g_cb_pushes, g_cb_last, g_cb_last_obj, g_cb_last_front)
__CPROVER_ensures(g_cb_pushes == __CPROVER_old(g_cb_pushes) + 1 && g_cb_last == GID(bufferPtr) &&
                  g_cb_last_obj == GID(object_ptr) && g_cb_last_front == 0)
__CPROVER_ensures(__CPROVER_return_value == EB_ErrorNone);

static EbErrorType svt_circular_buffer_push_front(EbCircularBuffer *bufferPtr, EbPtr object_ptr)
__CPROVER_requires(bufferPtr != NULL)
__CPROVER_assigns(g_cb_pushes, g_cb_last, g_cb_last_obj, g_cb_last_front)
__CPROVER_ensures(g_cb_pushes == __CPROVER_old(g_cb_pushes) + 1 && g_cb_last == GID(bufferPtr) &&
                  g_cb_last_obj == GID(object_ptr) && g_cb_last_front == 1)
__CPROVER_ensures(__CPROVER_return_value == EB_ErrorNone);

static EbErrorType svt_muxing_queue_assignation(EbMuxingQueue *queue_ptr)
__CPROVER_requires(queue_ptr != NULL)
__CPROVER_requires(g_single_threaded || g_is_held(queue_ptr->lockout_mutex))
/* it runs after the element was queued, never before */
__CPROVER_requires(g_cb_pushes == g_assign_calls + 1)
__CPROVER_assigns(g_assign_calls, g_assign_last)
__CPROVER_ensures(g_assign_calls == __CPROVER_old(g_assign_calls) + 1 && g_assign_last == GID(queue_ptr))
__CPROVER_ensures(__CPROVER_return_value == EB_ErrorNone);

#define MQ_SHAPE(q) (__CPROVER_is_fresh(q, sizeof(*(q))) && (q)->object_queue != NULL && (q)->process_queue != NULL && \
                     (q)->object_queue != (q)->process_queue && (q)->lockout_mutex != NULL)

static EbErrorType svt_muxing_queue_object_push_back(EbMuxingQueue *queue_ptr, EbObjectWrapper *object_ptr)
__CPROVER_requires(MQ_SHAPE(queue_ptr))
__CPROVER_requires(g_cb_pushes == 0 && g_assign_calls == 0)
__CPROVER_requires(g_single_threaded || (g_nheld == 1 && g_held[0] == queue_ptr->lockout_mutex))
__CPROVER_assigns(g_cb_pushes, g_cb_last, g_cb_last_obj, g_cb_last_front, g_assign_calls, g_assign_last)
/* exactly one element queued: the object, at the BACK of the OBJECT queue; then one assignation on this queue */
__CPROVER_ensures(g_cb_pushes == 1 && g_cb_last == GID(queue_ptr->object_queue) && g_cb_last_obj == GID(object_ptr) &&
                  g_cb_last_front == 0)
__CPROVER_ensures(g_assign_calls == 1 && g_assign_last == GID(queue_ptr))
__CPROVER_ensures(__CPROVER_return_value == EB_ErrorNone);

static EbErrorType svt_muxing_queue_object_push_front(EbMuxingQueue *queue_ptr, EbObjectWrapper *object_ptr)
__CPROVER_requires(MQ_SHAPE(queue_ptr))
__CPROVER_requires(g_cb_pushes == 0 && g_assign_calls == 0)
__CPROVER_requires(g_single_threaded || (g_nheld == 1 && g_held[0] == queue_ptr->lockout_mutex))
__CPROVER_assigns(g_cb_pushes, g_cb_last, g_cb_last_obj, g_cb_last_front, g_assign_calls, g_assign_last)
__CPROVER_ensures(g_cb_pushes == 1 && g_cb_last == GID(queue_ptr->object_queue) && g_cb_last_obj == GID(object_ptr) &&
                  g_cb_last_front == 1)
__CPROVER_ensures(g_assign_calls == 1 && g_assign_last == GID(queue_ptr))
__CPROVER_ensures(__CPROVER_return_value == EB_ErrorNone);

/* the consumer/producer announces itself: its FIFO goes to the FRONT of the PROCESS queue of its own muxing
 * queue, under that queue's mutex, and the assignation runs under the same critical section */
static EbErrorType svt_release_process(EbFifo *process_fifo_ptr)
__CPROVER_requires(__CPROVER_is_fresh(process_fifo_ptr, sizeof(*process_fifo_ptr)) &&
                   MQ_SHAPE(process_fifo_ptr->queue_ptr))
__CPROVER_requires(g_cb_pushes == 0 && g_assign_calls == 0 && g_nheld == 0 && g_single_threaded == 0)
__CPROVER_assigns(g_cb_pushes, g_cb_last, g_cb_last_obj, g_cb_last_front, g_assign_calls, g_assign_last, g_nheld,
                  g_locks, g_unlocks, g_last_lock, __CPROVER_object_whole(g_held))
__CPROVER_ensures(g_cb_pushes == 1 && g_cb_last == GID(process_fifo_ptr->queue_ptr->process_queue) &&
                  g_cb_last_obj == GID(process_fifo_ptr) && g_cb_last_front == 1)
__CPROVER_ensures(g_assign_calls == 1 && g_assign_last == GID(process_fifo_ptr->queue_ptr))
__CPROVER_ensures(g_nheld == 0 && g_locks == __CPROVER_old(g_locks) + 1 && g_unlocks == __CPROVER_old(g_unlocks) + 1)
__CPROVER_ensures(__CPROVER_return_value == EB_ErrorNone);

/* Trusted ghost model of EbThreads.c (the real file wraps pthread mutexes / POSIX semaphores and is NOT
 * verified).  Assumed: a mutex gives mutual exclusion; a semaphore never loses a post.
 * Modelled: the set of mutexes this thread holds (so balance, the *right* mutex, self-deadlock and
 * "waits on a semaphore while holding a mutex" are checkable), and event counters for semaphores. */
#ifndef GHOST_THREADS_H
#define GHOST_THREADS_H
#include "EbDefinitions.h"
#include "EbThreads.h"
#define G_MAXHELD 4
EbHandle g_held[G_MAXHELD];
int      g_nheld;
unsigned g_locks, g_unlocks;     /* event counters */
unsigned g_posts, g_waits;
EbHandle g_last_post, g_last_wait, g_last_lock;
unsigned g_sem_w_value;          /* value of the one witness semaphore g_sem_w (others unconstrained) */
EbHandle g_sem_w;

static inline int g_is_held(EbHandle h) {
    return (g_nheld > 0 && g_held[0] == h) || (g_nheld > 1 && g_held[1] == h) ||
        (g_nheld > 2 && g_held[2] == h) || (g_nheld > 3 && g_held[3] == h);
}
EbErrorType svt_block_on_mutex(EbHandle h) {
    __CPROVER_assert(h != 0, "lock: mutex handle is not NULL");
    __CPROVER_assert(!g_is_held(h), "lock: mutex not already held by this thread (self-deadlock)");
    __CPROVER_assert(g_nheld < G_MAXHELD, "lock: nesting depth within the model");
    g_held[g_nheld] = h;
    g_nheld++;
    g_locks++;
    g_last_lock = h;
#ifdef GHOST_LOCK_HOOK
    GHOST_LOCK_HOOK(h);
#endif
    return EB_ErrorNone;
}
EbErrorType svt_release_mutex(EbHandle h) {
    __CPROVER_assert(g_is_held(h), "unlock: the mutex released is one this thread holds");
    /* remove h from the held set (any order of release is legal) */
    if (g_nheld > 0 && g_held[0] == h) { g_held[0] = g_held[1]; g_held[1] = g_held[2]; g_held[2] = g_held[3]; g_held[3] = 0; g_nheld--; }
    else if (g_nheld > 1 && g_held[1] == h) { g_held[1] = g_held[2]; g_held[2] = g_held[3]; g_held[3] = 0; g_nheld--; }
    else if (g_nheld > 2 && g_held[2] == h) { g_held[2] = g_held[3]; g_held[3] = 0; g_nheld--; }
    else if (g_nheld > 3 && g_held[3] == h) { g_held[3] = 0; g_nheld--; }
    g_unlocks++;
#ifdef GHOST_UNLOCK_HOOK
    GHOST_UNLOCK_HOOK(h);
#endif
    return EB_ErrorNone;
}
EbErrorType svt_post_semaphore(EbHandle h) {
    __CPROVER_assert(h != 0, "post: semaphore handle is not NULL");
    g_posts++;
    g_last_post = h;
    if (h == g_sem_w) g_sem_w_value++;
#ifdef GHOST_POST_HOOK
    GHOST_POST_HOOK(h);
#endif
    return EB_ErrorNone;
}
EbErrorType svt_block_on_semaphore(EbHandle h) {
    __CPROVER_assert(h != 0, "wait: semaphore handle is not NULL");
    __CPROVER_assert(g_nheld == 0, "wait: no mutex is held while blocking on a semaphore");
    g_waits++;
    g_last_wait = h;
    if (h == g_sem_w) {
        /* the call returns only when the count was positive */
        __CPROVER_assume(g_sem_w_value > 0);
        g_sem_w_value--;
    }
#ifdef GHOST_WAIT_HOOK
    GHOST_WAIT_HOOK(h);
#endif
    return EB_ErrorNone;
}
#endif

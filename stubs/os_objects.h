/* Trusted model of the OS-object half of EbThreads.c for the allocation-failure units (C15/C16):
 * a mutex / semaphore / thread handle is a heap cell, creation may FAIL (returns NULL) under the verifier's
 * failing-malloc mode, destruction frees the cell (so a handle destroyed twice or never is a double free / leak
 * obligation).  Lock/post operations only demand a live handle. */
#ifndef OS_OBJECTS_H
#define OS_OBJECTS_H
#include <stdlib.h>
#include "EbDefinitions.h"
#include "EbThreads.h"
EbHandle svt_create_mutex(void) { return malloc(1); }
EbErrorType svt_destroy_mutex(EbHandle h) { __CPROVER_assert(h != 0, "destroy_mutex: live handle"); free(h); return EB_ErrorNone; }
EbHandle svt_create_semaphore(uint32_t a, uint32_t b) { (void)a; (void)b; return malloc(1); }
EbErrorType svt_destroy_semaphore(EbHandle h) { __CPROVER_assert(h != 0, "destroy_semaphore: live handle"); free(h); return EB_ErrorNone; }
EbHandle svt_create_thread(void *f(void *), void *ctx) { (void)f; (void)ctx; return malloc(8); }
EbErrorType svt_destroy_thread(EbHandle h) { __CPROVER_assert(h != 0, "destroy_thread: live handle"); free(h); return EB_ErrorNone; }
EbErrorType svt_block_on_mutex(EbHandle h) { __CPROVER_assert(__CPROVER_r_ok(h, 1), "lock: live mutex"); return EB_ErrorNone; }
EbErrorType svt_release_mutex(EbHandle h) { __CPROVER_assert(__CPROVER_r_ok(h, 1), "unlock: live mutex"); return EB_ErrorNone; }
EbErrorType svt_post_semaphore(EbHandle h) { __CPROVER_assert(__CPROVER_r_ok(h, 1), "post: live semaphore"); return EB_ErrorNone; }
EbErrorType svt_block_on_semaphore(EbHandle h) { __CPROVER_assert(__CPROVER_r_ok(h, 1), "wait: live semaphore"); return EB_ErrorNone; }
pthread_t pthread_self(void) { return 0; }
int pthread_setschedparam(pthread_t t, int policy, const struct sched_param *p) { (void)t; (void)policy; (void)p; return 0; }
int pthread_setaffinity_np(pthread_t t, size_t n, const cpu_set_t *s) { (void)t; (void)n; (void)s; return 0; }
void svt_log(int level, const char *tag, const char *fmt, ...) { (void)level; (void)tag; (void)fmt; }
void svt_print_alloc_fail(const char *file, int line) { (void)file; (void)line; }
void svt_add_mem_entry(void *ptr, EbPtrType type, size_t count, const char *file, uint32_t line) {}
void svt_remove_mem_entry(void *ptr, EbPtrType type) {}
#endif

#ifndef CALLOC_SMALL_H
#define CALLOC_SMALL_H
#include <stdlib.h>
#include <string.h>
#include <stdint.h>
/* trusted library model (measured: the built-in calloc gives a pointer array whose element count is read through a
 * pointer an UNBOUNDED byte-array object, and the array post-processing then exhausts 30 GB): same semantics, but the
 * small pointer-array sizes are case-split so that each branch allocates an object of constant size */
void *calloc(size_t n, size_t s) {
    size_t t = n * s;
    __CPROVER_assert(s == 0 || t / s == n, "calloc: element count times size does not overflow");
    if (t == 8) { uint64_t *q = malloc(8); if (q) q[0] = 0; return q; }
    if (t == 16) { uint64_t *q = malloc(16); if (q) { q[0] = 0; q[1] = 0; } return q; }
    if (t == 24) { uint64_t *q = malloc(24); if (q) { q[0] = 0; q[1] = 0; q[2] = 0; } return q; }
    if (t == 32) { uint64_t *q = malloc(32); if (q) { q[0] = 0; q[1] = 0; q[2] = 0; q[3] = 0; } return q; }
    void *p = malloc(t);
    if (p) memset(p, 0, t);
    return p;
}
#endif
